"""Import the library under test from PAMQP_SRC (default /repo) by path.

There is nothing to build for a pure-Python library: "rebuild from the current
working tree" is this import. The harness refuses to run if the imported
package does not live under PAMQP_SRC (e.g. because an installed copy shadowed
it), which would otherwise silently check the wrong code.
"""
import os
import sys

sys.dont_write_bytecode = True
SRC = os.path.realpath(os.environ.get('PAMQP_SRC', '/repo'))
if SRC not in sys.path[:1]:
    sys.path.insert(0, SRC)

# ---- cooperative locks for library code -----------------------------------
# The pinned library has no locks.  A change that adds one (threading.Lock()
# or RLock() created by a pamqp module) would deadlock a baton-passing
# scheduler: the owner is parked while the baton holder blocks in acquire().
# Locks created *by pamqp modules* are therefore wrapped: a blocking acquire
# that cannot succeed hands the baton to another thread (the active run's
# lock_yield) and retries.  Everything else gets the real primitives.
import threading as _threading  # noqa: E402

_REAL_LOCK = _threading.Lock
_REAL_RLOCK = _threading.RLock
LOCK_YIELD = [None]      # set by the active run: callable() or None


HELD = {}   # thread ident -> number of library locks currently held


def holds_library_lock():
    return HELD.get(_threading.get_ident(), 0) > 0


class Deadlock(BaseException):
    """A blocking acquire of a library lock that can never succeed in this
    run: the simulator owns every thread, so it knows (no wall clock)."""


def single_thread_yield(owner_ident=None):
    raise Deadlock('the only thread of the run waits for a library lock '
                   'that is still held (it was never released)')


class SimLock:
    def __init__(self, real, reentrant=False):
        self._real = real
        self._owner = None
        self._reentrant = reentrant

    def acquire(self, blocking=True, timeout=-1):
        if self._real.acquire(False):
            me = self._owner = _threading.get_ident()
            HELD[me] = HELD.get(me, 0) + 1
            return True
        if not blocking:
            return False
        spins = 0
        while not self._real.acquire(False):
            y = LOCK_YIELD[0]
            if y is None:
                ok = self._real.acquire(True, timeout)
                if ok:
                    me = self._owner = _threading.get_ident()
                    HELD[me] = HELD.get(me, 0) + 1
                return ok
            if self._owner == _threading.get_ident() and \
                    not self._reentrant:
                raise Deadlock('a thread waits for a non-reentrant library '
                               'lock it holds itself')
            y(self._owner)     # hand the baton to the owner
            spins += 1
            if spins > 20000:
                raise Deadlock('library lock never became free although '
                               'every other thread was given the baton')
        me = self._owner = _threading.get_ident()
        HELD[me] = HELD.get(me, 0) + 1
        return True

    def release(self):
        me = _threading.get_ident()
        if HELD.get(me, 0) > 0:
            HELD[me] -= 1
        if not self._reentrant:
            self._owner = None
        self._real.release()

    def locked(self):
        return self._real.locked()

    def __enter__(self):
        self.acquire()
        return self

    def __exit__(self, *a):
        self.release()


def _from_library():
    f = sys._getframe(2)
    return (f.f_globals.get('__name__') or '').split('.')[0] == 'pamqp'


def _lock_factory(*a, **k):
    real = _REAL_LOCK(*a, **k)
    return SimLock(real) if _from_library() else real


def _rlock_factory(*a, **k):
    real = _REAL_RLOCK(*a, **k)
    return SimLock(real, True) if _from_library() else real


_threading.Lock = _lock_factory
_threading.RLock = _rlock_factory

import pamqp  # noqa: E402
from pamqp import (base, body, commands, common, constants, decode,  # noqa
                   encode, exceptions, frame, header, heartbeat)

PKG_DIR = os.path.realpath(os.path.dirname(pamqp.__file__))
if not PKG_DIR.startswith(SRC + os.sep):
    raise SystemExit('HARNESS-ERROR: pamqp imported from %s, not from '
                     'PAMQP_SRC=%s' % (PKG_DIR, SRC))


_PREFIX = PKG_DIR + os.sep


def is_lib_file(filename, _p=_PREFIX):
    return filename.startswith(_p)
