"""Import the library under test from PAMQP_SRC (default /repo) by path.

There is nothing to build for a pure-Python library: "rebuild from the current
working tree" is this import. The harness refuses to run if the imported
package does not live under PAMQP_SRC (e.g. because an installed copy shadowed
it), which would otherwise silently check the wrong code.
"""
import os
import sys

sys.dont_write_bytecode = True
SRC = os.path.realpath(os.environ.get('PAMQP_SRC', '/repo'))
if SRC not in sys.path[:1]:
    sys.path.insert(0, SRC)

import pamqp  # noqa: E402
from pamqp import (base, body, commands, common, constants, decode,  # noqa
                   encode, exceptions, frame, header, heartbeat)

PKG_DIR = os.path.realpath(os.path.dirname(pamqp.__file__))
if not PKG_DIR.startswith(SRC + os.sep):
    raise SystemExit('HARNESS-ERROR: pamqp imported from %s, not from '
                     'PAMQP_SRC=%s' % (PKG_DIR, SRC))


_PREFIX = PKG_DIR + os.sep


def is_lib_file(filename, _p=_PREFIX):
    return filename.startswith(_p)
