"""State watch: the library's own process-lifetime containers.

The pinned library keeps no run-time state; changes to it usually introduce
some in the form of module-level or class-level containers (memo dicts, FIFO
deques, pools, functools.lru_cache wrappers).  The interesting moments for
such state are few and far apart - the instant a bounded cache reaches its
capacity, is flushed, evicts or wraps around - and a uniformly random schedule
almost never puts a pre-emption there.  The watch lets the simulator see those
moments coming, the same way a storage simulator biases its crashes to land
right after a flush:

  near_boundary()  is any container that has changed since the run started
                   within a few entries of a round capacity (2^k, 10^k,
                   2*10^k, 5*10^k, or the maxsize of an lru_cache)?
  retained()       approximate number of bytes held by all containers that
                   have changed since the run started (deep, bounded walk).

Everything is a pure function of the library's state: no clock, no
randomness, sorted iteration, so schedules derived from it replay.
Static tables (INDEX_MAPPING, flags, ...) never change size and are ignored.
"""
import collections
import sys

from sim import lib

_CONTAINERS = (dict, list, set, collections.deque, bytearray)
ROUND = sorted({2 ** k for k in range(3, 21)} |
               {m * 10 ** k for k in range(1, 7) for m in (1, 2, 5)})


def _r(x):
    """repr without addresses (objects by type name)."""
    if isinstance(x, (str, bytes, int, float, bool, type(None))):
        return repr(x)
    if isinstance(x, (tuple, frozenset)):
        items = [_r(i) for i in x]
        if isinstance(x, frozenset):
            items.sort()
        return '(' + ','.join(items) + ')' 
    if isinstance(x, (list, dict, set, bytearray)):
        return type(x).__name__ + repr(x) if not isinstance(x, dict) \
            else 'dict' + repr(sorted((_r(k), _r(v)) for k, v in x.items()))
    try:
        import datetime
        import decimal
        if isinstance(x, (datetime.datetime, decimal.Decimal)):
            return repr(x)
    except Exception:
        pass
    return '<%s>' % type(x).__name__


def _modules():
    return [m for n, m in sorted(sys.modules.items())
            if (n == 'pamqp' or n.startswith('pamqp.')) and m is not None]


class Watch:
    def __init__(self, margin=4):
        self.margin = margin
        self.base = {}          # id -> size at first sight
        self.objs = {}          # id -> (label, obj)
        self.dynamic = {}       # id -> True once the size has changed
        self.scans = 0
        self.scan(initial=True)

    # ------------------------------------------------------------ discovery
    def _consider(self, label, obj, initial):
        if isinstance(obj, _CONTAINERS) or hasattr(obj, 'cache_info'):
            i = id(obj)
            if i not in self.objs:
                self.objs[i] = (label, obj)
                self.base[i] = self._size(obj)
                if not initial:
                    # appeared after the run started: lazily created state
                    self.dynamic[i] = True
            return True
        return False

    def scan(self, initial=False):
        self.scans += 1
        for m in _modules():
            mn = m.__name__
            for name, obj in sorted(vars(m).items(), key=lambda kv: kv[0]):
                if name.startswith('__'):
                    continue
                label = '%s.%s' % (mn, name)
                if self._consider(label, obj, initial):
                    continue
                if isinstance(obj, type):
                    if getattr(obj, '__module__', None) != mn:
                        continue
                    self._scan_class(label, obj, initial, 0)
                elif type(obj).__module__.startswith('pamqp') and \
                        hasattr(obj, '__dict__'):
                    # an instance of a library class kept at module level
                    # (a cache object): look one level inside
                    for an, av in sorted(vars(obj).items()):
                        self._consider(label + '.' + an, av, initial)
                elif callable(obj) and hasattr(obj, '__wrapped__'):
                    self._consider(label, obj, initial)

    def _scan_class(self, label, cls, initial, depth):
        for an, av in sorted(vars(cls).items(), key=lambda kv: kv[0]):
            if an.startswith('__'):
                continue
            f = getattr(av, '__func__', av)    # classmethod / staticmethod
            if self._consider(label + '.' + an, av, initial):
                continue
            if f is not av and self._consider(label + '.' + an, f, initial):
                continue
            if isinstance(av, type) and depth < 2 and \
                    getattr(av, '__module__', None) == cls.__module__:
                self._scan_class(label + '.' + an, av, initial, depth + 1)

    @staticmethod
    def _size(obj):
        try:
            if hasattr(obj, 'cache_info'):
                return obj.cache_info().currsize
            return len(obj)
        except Exception:
            return 0

    # -------------------------------------------------------------- queries
    def sizes(self):
        """[(label, size, capacity-or-None)] of containers that changed."""
        out = []
        for i, (label, obj) in self.objs.items():
            s = self._size(obj)
            if not self.dynamic.get(i):
                if s == self.base[i]:
                    continue
                self.dynamic[i] = True
            cap = None
            if hasattr(obj, 'cache_info'):
                try:
                    cap = obj.cache_info().maxsize
                except Exception:
                    cap = None
            out.append((label, s, cap))
        return out

    def near_boundary(self):
        m = self.margin
        hit = None
        for label, s, cap in self.sizes():
            if s < 6:
                continue
            if cap:
                if cap - m <= s <= cap:
                    hit = label
                    break
                continue
            # first round number >= s - 1
            for c in ROUND:
                if c >= s - 1:
                    if c - m <= s <= c + 1:
                        hit = label
                    break
            if hit:
                break
        return hit

    def near_caps(self, caps, margin, spent=None, per_cap=None):
        """(label, capacity) of a changed container whose size is within
        `margin` entries below (or at) one of the given capacities (each
        (container, capacity) pair at most per_cap times), else None."""
        for label, s, cap in self.sizes():
            for c in ([cap] if cap else caps):
                if c - margin <= s <= c:
                    if spent is not None:
                        if spent.get((label, c), 0) >= per_cap:
                            continue
                        spent[(label, c)] = spent.get((label, c), 0) + 1
                    return label, c
        return None

    def dynamic_names(self):
        """Short names under which library code refers to the changed
        containers (global or attribute names)."""
        return sorted({label.rsplit('.', 1)[-1]
                       for label, _, _ in self.sizes()})

    def state_digest(self):
        """Order-insensitive digest of the contents of the changed
        containers (a multiset per container)."""
        import hashlib
        h = hashlib.sha1()
        for i, (label, obj) in sorted(self.objs.items(),
                                      key=lambda kv: kv[1][0]):
            if not self.dynamic.get(i) and self._size(obj) == self.base[i]:
                continue
            if hasattr(obj, 'cache_info'):
                items = [repr(obj.cache_info().currsize)]
            elif isinstance(obj, dict):
                items = sorted(_r(k) + '=' + _r(v) for k, v in obj.items())
            else:
                try:
                    items = sorted(_r(x) for x in obj)
                except Exception:
                    items = [repr(len(obj))]
            h.update(label.encode())
            h.update(repr(items).encode('utf-8', 'backslashreplace'))
        return h.hexdigest()

    def retained(self, limit=200000):
        """Approximate bytes held by the changed containers (deep walk,
        bounded to `limit` objects)."""
        seen = set()
        total = 0
        stack = []
        for i, (label, obj) in self.objs.items():
            if self.dynamic.get(i) or self._size(obj) != self.base[i]:
                if hasattr(obj, 'cache_info'):
                    # contents are not reachable from Python; estimate from
                    # the entry count (key + result + link, conservative)
                    total += 96 * self._size(obj)
                else:
                    stack.append(obj)
        n = 0
        while stack and n < limit:
            o = stack.pop()
            if id(o) in seen:
                continue
            seen.add(id(o))
            n += 1
            try:
                total += sys.getsizeof(o)
            except Exception:
                pass
            if isinstance(o, dict):
                stack.extend(o.keys())
                stack.extend(o.values())
            elif isinstance(o, (list, tuple, set, frozenset,
                                collections.deque)):
                stack.extend(o)
        return total

    def summary(self):
        return sorted((label, s) for label, s, _ in self.sizes())
