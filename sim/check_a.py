"""World A checks: C06, C07, C08, C09, C20 (spec module for sim.core)."""
import copy
import json

from sim import core, gen_a, wiremap, world_a

PROPS = {'C06': {'C06'}, 'C07': {'C07'}, 'C08': {'C08'}, 'C09': {'C09'},
         'C20': {'C20'},
         # World B's checks borrow the capacity population (sim.check_b)
         'C12': {'C12'}, 'C16': {'C16'}}

# (population, runs) per tier.  Counts are fixed (not time-boxed) so that a
# VERIF_SEED names the same set of runs on every machine.
PLANS = {
    'C06': {'quick': [('frag', 9000), ('corrupt', 3000), ('random', 1000),
                      ('long', 300), ('threads', 400),
                      ('long_threads', 150), ('huge_threads', 16),
                      ('capacity', 24)],
            'thorough': [('frag', 88000), ('corrupt', 24000),
                         ('random', 8000), ('long', 3200),
                         ('threads', 4800), ('long_threads', 1600),
                         ('huge_threads', 600), ('capacity', 320)]},
    'C07': {'quick': [('frag', 8000), ('sweep', 1200), ('threads', 400),
                      ('huge_threads', 16), ('capacity', 24)],
            'thorough': [('frag', 80000), ('sweep', 8000),
                         ('threads', 4800), ('huge_threads', 600),
                         ('capacity', 320)]},
    'C08': {'quick': [('corrupt', 10000), ('random', 1500), ('frag', 800),
                      ('long', 300), ('truncsweep', 400), ('bytesweep', 150),
                      ('fieldsweep', 120), ('soak', 16), ('capacity', 24)],
            'thorough': [('corrupt', 100000), ('random', 12000),
                         ('frag', 4000), ('long', 3200),
                         ('truncsweep', 4800), ('bytesweep', 1200),
                         ('fieldsweep', 1200), ('soak', 160),
                         ('capacity', 320)]},
    'C09': {'quick': [('corrupt', 12000), ('random', 2000), ('long', 500),
                      ('truncsweep', 400), ('bytesweep', 150),
                      ('fieldsweep', 120), ('threads', 600),
                      ('long_threads', 400), ('huge_threads', 16),
                      ('capacity', 24)],
            'thorough': [('corrupt', 120000), ('random', 16000),
                         ('long', 4800), ('truncsweep', 4800),
                         ('bytesweep', 1200), ('fieldsweep', 1200),
                         ('threads', 6000), ('long_threads', 2400),
                         ('huge_threads', 600), ('capacity', 320)]},
    'C20': {'quick': [('frag', 7000), ('corrupt', 3000), ('random', 2500),
                      ('threads', 400), ('capacity', 16)],
            'thorough': [('frag', 72000), ('corrupt', 24000),
                         ('random', 24000), ('threads', 4800),
                         ('capacity', 200)]},
}

LEVEL = {'C06': 'exploration', 'C07': 'fault_enumeration',
         'C08': 'exploration', 'C09': 'exploration', 'C20': 'exploration'}


def generate(check, population, rng, tier):
    t = gen_a.gen_trace(rng, check, population, tier)
    if check == 'C20' and population == 'frag':
        # the read-sizing protocol is the peek client's; bias towards it
        for c in t['conns']:
            if rng.random() < 0.6:
                c['recv'] = 'B'
    return t


ENUMERATED = ('sweep', 'truncsweep', 'bytesweep', 'fieldsweep')


def execute(check, trace, keep_log=False):
    res = world_a.execute(trace, PROPS[check], keep_log)
    pop = trace.get('population')
    if pop in ENUMERATED:
        # enumerated sub-spaces are reported with their own counts
        ex = res.setdefault('extra', {})
        ex['enumerated_%s_frames' % pop] = len(trace['conns'])
        ex['enumerated_%s_faults' % pop] = sum(
            len(c.get('closes', ())) + len(c.get('faults', ()))
            for c in trace['conns'])
    return res


def sample_view(trace, res):
    """A compact, human-readable view of one explored run (for evidence)."""
    conns = []
    for c in trace['conns']:
        conns.append({
            'receiver': c.get('recv'),
            'frames': [_frame_label(f) for f in c['frames'][:12]] +
                      (['...(%d more)' % (len(c['frames']) - 12)]
                       if len(c['frames']) > 12 else []),
            'n_cuts': len(c.get('cuts', ())),
            'closes': c.get('closes', [])[:8],
            'stalls': c.get('stalls', []),
            'faults': [{'frame': f['frame'], 'kind': f['kind'],
                        'patches': f['patches'], 'reframe': f['reframe']}
                       for f in c.get('faults', ())],
            'trailer': c.get('trailer', ''),
        })
    return {'population': trace.get('population'), 'connections': conns,
            'fault_kinds_fired': res.get('fired'),
            'oracle_evaluations': res.get('oracles'),
            'library_calls': res.get('calls'), 'digest': res.get('digest')}


def _frame_label(f):
    k = f['k']
    if k == 'method':
        return '%s(ch=%s, %d args)' % (f['cls'], f.get('ch'), len(f['args']))
    if k == 'header':
        return 'ContentHeader(ch=%s, body_size=%s, props=%s)' % (
            f.get('ch'), f['body_size'], sorted(f['props']))
    if k == 'body':
        return 'ContentBody(ch=%s, %d parts)' % (f.get('ch'), len(f['parts']))
    if k == 'raw':
        return 'raw(%s)' % (f['b'][:32] + ('..' if len(f['b']) > 32 else ''))
    return k


# ------------------------------------------------------------------ shrinking

def _reindex_drop(conn, drop):
    """Remove frames whose index is in `drop`, keeping positions coherent."""
    drop = set(drop)
    n = len(conn['frames'])
    newidx = {}
    j = 0
    for k in range(n):
        if k not in drop:
            newidx[k] = j
            j += 1
    newidx[n] = j
    c = dict(conn)
    c['frames'] = [f for k, f in enumerate(conn['frames']) if k not in drop]
    for key in ('cuts', 'closes'):
        c[key] = [[newidx[k], o] for k, o in conn.get(key, ())
                  if k in newidx]
    c['faults'] = [dict(f, frame=newidx[f['frame']])
                   for f in conn.get('faults', ()) if f['frame'] in newidx]
    return c


def _ddmin_list(items, test):
    """Classic ddmin on a list; test(sublist) -> True if still failing."""
    n = 2
    items = list(items)
    while len(items) >= 1:
        size = max(1, len(items) // n)
        chunks = [items[i:i + size] for i in range(0, len(items), size)]
        reduced = False
        for ci in range(len(chunks)):
            cand = [x for j, ch in enumerate(chunks) if j != ci for x in ch]
            if test(cand):
                items = cand
                n = max(n - 1, 2)
                reduced = True
                break
        if not reduced:
            if size == 1:
                break
            n = min(len(items), n * 2)
    return items


def shrink(check, trace, cls, vbuf=None, max_execs=2000, max_wall=None):
    """Minimise the trace while the same violation class persists."""
    import os
    import time
    max_wall = max_wall or float(os.environ.get('VERIF_SHRINK_S', '60'))
    state = {'n': 0, 't0': time.time()}

    def bad(t):
        if state['n'] >= max_execs or \
                time.time() - state['t0'] > max_wall:
            return False
        state['n'] += 1
        try:
            res = core.isolated_execute('sim.check_a', check, t)
        except Exception:
            return False
        v = res['violation']
        return v is not None and v.cls == cls

    cur = copy.deepcopy(trace)
    if not bad(cur):
        return cur, state['n'], False
    if cls and cls[0] == 'memory':
        # replays measure every call, not the 1-in-8 sample by position
        c2 = dict(cur, mem_all=True)
        if bad(c2):
            cur = c2

    # 0. per-call violations: the offending buffer alone, as raw bytes
    if vbuf is not None and len(vbuf) <= 300000:
        cand = {'world': 'A', 'check': check, 'population': 'raw',
                'mem_all': bool(cur.get('mem_all')),
                'conns': [{'recv': 'A',
                           'frames': [{'k': 'raw', 'b': bytes(vbuf).hex()}],
                           'cuts': [], 'closes': [], 'stalls': [],
                           'faults': [], 'lat': [1]}]}
        if bad(cand):
            cur = cand
            raw = list(bytes(vbuf))

            def test_raw(items):
                t = copy.deepcopy(cand)
                t['conns'][0]['frames'][0]['b'] = bytes(items).hex()
                return bad(t)

            def test_reframed(items):
                # dropping bytes breaks the envelope; try it repaired too
                if test_raw(items):
                    return True
                fixed = wiremap.reframe(bytes(items))
                return fixed != bytes(items) and test_raw(list(fixed))
            raw2 = _ddmin_list(raw, test_reframed)
            if not test_raw(raw2):
                raw2 = list(wiremap.reframe(bytes(raw2)))
            if test_raw(raw2):
                raw = raw2
            raw = _ddmin_list(raw, test_raw)
            # simplify the surviving bytes toward zero
            for i in range(len(raw)):
                for v in (0,):
                    if raw[i] != v:
                        t2 = raw[:i] + [v] + raw[i + 1:]
                        if test_raw(t2):
                            raw = t2
            cur['conns'][0]['frames'][0]['b'] = bytes(raw).hex()
            return cur, state['n'], True

    if cur.get('population') == 'soak':
        # shorter history, fewer kinds
        sp = cur['soak']
        while sp['n'] > 500:
            c2 = dict(cur, soak=dict(sp, n=sp['n'] // 2))
            if not bad(c2):
                break
            cur, sp = c2, c2['soak']
        for k in sorted(sp['weights']):
            if sp['weights'][k]:
                w2 = dict(sp['weights'])
                w2[k] = 0
                c2 = dict(cur, soak=dict(sp, weights=w2))
                if any(w2.values()) and bad(c2):
                    cur, sp = c2, c2['soak']
        return cur, state['n'], True
    if cur.get('tail'):
        c2 = dict(cur, tail=0)
        if bad(c2):
            cur = c2
    progress = True
    while progress and state['n'] < max_execs and \
            time.time() - state['t0'] < max_wall:
        progress = False
        # 1. drop connections
        if len(cur['conns']) > 1:
            def test_conns(cs):
                if not cs:
                    return False
                return bad(dict(cur, conns=cs))
            cs = _ddmin_list(cur['conns'], test_conns)
            if len(cs) < len(cur['conns']):
                cur = dict(cur, conns=cs)
                progress = True
        # 2. per connection: frames, then link script items
        for ci in range(len(cur['conns'])):
            conn = cur['conns'][ci]

            def with_conn(c):
                cs = list(cur['conns'])
                cs[ci] = c
                return dict(cur, conns=cs)
            idx = list(range(len(conn['frames'])))
            if len(idx) > 1:
                def test_frames(keep):
                    if not keep:
                        return False
                    return bad(with_conn(_reindex_drop(
                        conn, set(idx) - set(keep))))
                keep = _ddmin_list(idx, test_frames)
                if len(keep) < len(idx):
                    conn = _reindex_drop(conn, set(idx) - set(keep))
                    cur = with_conn(conn)
                    progress = True
            for key in ('faults', 'closes', 'cuts', 'stalls'):
                items = conn.get(key, [])
                if not items:
                    continue

                def test_items(sub, key=key):
                    return bad(with_conn(dict(conn, **{key: sub})))
                sub = _ddmin_list(items, test_items) \
                    if not test_items([]) else []
                if len(sub) < len(items):
                    conn = dict(conn, **{key: sub})
                    cur = with_conn(conn)
                    progress = True
            if conn.get('trailer'):
                c2 = dict(conn, trailer='')
                if bad(with_conn(c2)):
                    conn = c2
                    cur = with_conn(conn)
                    progress = True
            if conn.get('lat') != [1]:
                c2 = dict(conn, lat=[1])
                if bad(with_conn(c2)):
                    conn = c2
                    cur = with_conn(conn)
                    progress = True
            # 3. simplify frames
            for k in range(len(conn['frames'])):
                for simpler in _simpler_frames(conn['frames'][k]):
                    fr = list(conn['frames'])
                    fr[k] = simpler
                    c2 = dict(conn, frames=fr)
                    if bad(with_conn(c2)):
                        conn = c2
                        cur = with_conn(conn)
                        progress = True
    return cur, state['n'], True


def _simpler_frames(f):
    """Candidate simplifications of one frame descriptor (lazily)."""
    k = f['k']
    if f.get('ch', 0) != 0:
        yield dict(f, ch=0)
    if k == 'method':
        for name in list(f['args']):
            a = dict(f['args'])
            del a[name]
            yield dict(f, args=a)
        for name, v in f['args'].items():
            for sv in _simpler_values(v):
                a = dict(f['args'])
                a[name] = sv
                yield dict(f, args=a)
    elif k == 'header':
        for name in list(f['props']):
            p = dict(f['props'])
            del p[name]
            yield dict(f, props=p)
        if f['body_size'] != 0:
            yield dict(f, body_size=0)
        for name, v in f['props'].items():
            for sv in _simpler_values(v):
                p = dict(f['props'])
                p[name] = sv
                yield dict(f, props=p)
    elif k == 'body':
        if len(f['parts']) > 1:
            for i in range(len(f['parts'])):
                yield dict(f, parts=f['parts'][:i] + f['parts'][i + 1:])
        yield dict(f, parts=[{'b': '00'}])


def _simpler_values(v):
    if isinstance(v, str) and v:
        yield ''
        yield v[:1]
    elif isinstance(v, bool):
        if v:
            yield False
    elif isinstance(v, int) and v:
        yield 0
    elif isinstance(v, dict) and 'd' in v:
        items = v['d']
        if items:
            yield {'d': []}
            for i in range(len(items)):
                yield {'d': items[:i] + items[i + 1:]}
            for i, (key, val) in enumerate(items):
                for sv in _simpler_values(val):
                    yield {'d': items[:i] + [[key, sv]] + items[i + 1:]}
    elif isinstance(v, list) and v:
        yield []
        for i in range(len(v)):
            yield v[:i] + v[i + 1:]
        for i, val in enumerate(v):
            for sv in _simpler_values(val):
                yield v[:i] + [sv] + v[i + 1:]
    elif isinstance(v, dict) and 'rep' in v:
        yield {'rep': [v['rep'][0], max(1, v['rep'][1] // 2)]}
        yield 'a'


def canonical_json(o):
    return json.dumps(o, sort_keys=True)


_POPS = (' Populations: frag (fragmentation-only link), corrupt (corruption '
         'faults), random (raw/header-shaped buffers), long (60-200 '
         'table-heavy frames per connection with run-wide distinct keys and '
         'damaged frames in between: state that accumulates over a process '
         'history), threads (every connection - producer encode and '
         'receiver decode - is a real thread under the baton scheduler, '
         'pre-empted at pamqp source lines by an explicit schedule plus the '
         'novel-line policy), sweep / truncsweep / bytesweep / fieldsweep '
         '(enumerated single faults: every cut point, every payload '
         'truncation, every byte overwritten with a value set, every '
         'length/flag/tag/id field rewritten to a value set), capacity '
         '(2-3 connections x 300-2300 frames with run-wide distinct values, '
         'executed sequentially; whenever the state watch sees a library '
         'container within a few entries of a capacity of interest the round '
         'is explored in forked children: every thread parked before every '
         'container-touching line while the others run their window, plus '
         'the rendezvous variant; children leaving a container state that no '
         'sequential order produces continue to the end of the run), soak '
         '(C08: one history of 6000-80000 distinct harness-built frames, '
         'retained memory judged after dropping every result), and a few '
         'strict prefixes of body frames of 2^31 bytes and more (the peer '
         'closes a few bytes into a huge frame). A fraction of every plan '
         'runs again under python -O. Each run executes in a freshly forked '
         'child of a library-pristine process.')
_NT = (' A run is non-trivial if at least one link fault (fragment, coalesce, '
       'stall, close, trailing, raw bytes or a corruption kind) actually '
       'fired while a frame was in flight AND at least one oracle of this '
       'property was evaluated; distinct = distinct SHA-256 digests of the '
       'run event log (every delivery, fault firing and library-call '
       'outcome).')
RULE = {
    'C06': 'Seeded World A runs: 1-4 simulated connections carrying 1-40 '
           'real-encoded frames of all five kinds over a simulated byte '
           'link (segmentation at aimed/random cut points, coalescing, '
           'stalls, EOF+reconnect, adversarial trailing bytes; a separate '
           'corruption population and a random-bytes population for the '
           'envelope clause), decoded by a buffering client and a peek '
           'client running the real decoder.' + _NT,
    'C07': 'Seeded World A runs (fragmentation-only link: cuts, coalescing, '
           'stalls, EOF at arbitrary bytes) in which every receiver wake-up '
           'with a strict prefix of the next sent frame must raise '
           'UnmarshalingException, plus a sweep population in which one '
           'frame per connection is cut (peer closes) after EVERY byte in '
           'turn (all cut points 0..len-1 for frames up to 2048 bytes in '
           'quick / 140000 in thorough, else head, tail and a 256-point '
           'stride).' + _NT,
    'C08': 'Seeded World A runs with corruption faults (bit flip, byte '
           'overwrite, insert, delete, truncate, rewrite of a length / flag '
           '/ type-tag / id / size field found by an independent wire map; '
           'raw or re-framed so the damage reaches the content decoders), '
           'random buffers, and valid large frames as controls; every '
           'decode runs under the step meter (budget 5000 + 64*len '
           'interpreter events) and 1 in 8 under tracemalloc (4 MiB + '
           '1024*len).' + _NT,
    'C09': 'Same corruption and random-buffer populations as C08; oracle: '
           'every exception leaving frame.unmarshal is an '
           'UnmarshalingException (only a genuine interpreter recursion '
           'overflow - input of >= 320 bytes, > 128 library frames on the '
           'stack - is exempt, and counted).' + _NT,
    'C20': 'Seeded World A runs: at every receiver wake-up frame_parts is '
           'compared on the current buffer (and its first 7 bytes) with the '
           'big-endian unsigned header fields computed by int.from_bytes '
           '(corruption and random populations make extreme header values '
           'occur); the peek client sizes its reads with the real '
           'frame_parts and the decoder must accept header+size+1 bytes of '
           'every valid frame, consume all of it and report the peeked '
           'channel.' + _NT,
}
_COMMON_ASSUME = [
    'sampling, not proof: a clean batch is evidence over the explored seeds',
    'the producer generates frames the pinned encoder accepts; a frame is a '
    '"complete valid frame" only if its isolated decode succeeds and '
    'consumes exactly its length',
    'ground-truth oracles are suspended behind the first damaged byte of a '
    'connection (taint) and are never suspended in the fragmentation-only '
    'population',
]
for _k in list(RULE):
    RULE[_k] = RULE[_k] + _POPS
ASSUMPTIONS = {
    'C06': _COMMON_ASSUME + [
        'reference for a delivered frame is the isolated decode of the same '
        'bytes (not the sent object): value round-trip is C01-C03, not '
        'claimed'],
    'C07': _COMMON_ASSUME,
    'C08': _COMMON_ASSUME + [
        'the step meter counts PY_START/JUMP/BRANCH events in pamqp code; '
        'C-level work per event is bounded by argument, with a wall-clock '
        'backstop (worker death) as the only time-dependent verdict',
        'memory is sampled on a deterministic 1-in-8 subset of calls'],
    'C09': _COMMON_ASSUME + [
        'a RecursionError is exempt only when it is the interpreter\'s own '
        'limit (more than 128 library frames on the stack, input of at '
        'least 64*5 bytes: deeper than the 64 levels the property covers); '
        'one raised by the library itself on a covered input is a '
        'violation; StepBudgetExceeded is C08\'s '
        'business and ends the call without a C09 verdict'],
    'C20': _COMMON_ASSUME,
}
