"""Check driver: batches -> violations -> shrinking -> replay -> evidence."""
import importlib
import json
import os
import sys
import time

from sim import core

PYWARN = 'error,ignore::DeprecationWarning'

SPEC_OF = {
    'C06': 'sim.check_a', 'C07': 'sim.check_a', 'C08': 'sim.check_a',
    'C09': 'sim.check_a', 'C20': 'sim.check_a',
    'C11': 'sim.check_b', 'C12': 'sim.check_b', 'C15': 'sim.check_b',
    'C16': 'sim.check_b',
}

REAL_STUB = {
    'A': {
        'real': ['pamqp.frame', 'pamqp.base', 'pamqp.commands',
                 'pamqp.encode', 'pamqp.decode', 'pamqp.header', 'pamqp.body',
                 'pamqp.heartbeat', 'pamqp.exceptions', 'pamqp.constants '
                 '(all unmodified, imported from PAMQP_SRC)'],
        'stub': ['producer (workload generator, encodes with the real '
                 'pamqp.frame.marshal)', 'byte-stream link (segmentation, '
                 'coalescing, stalls, close/EOF, trailing bytes, corruption)',
                 'receiver A (buffering client loop)', 'receiver B (7-byte '
                 'peek client)', 'virtual-time event heap', 'step meter '
                 '(sys.monitoring logical clock)'],
    },
    'B': {
        'real': ['all pamqp modules (unmodified, imported from PAMQP_SRC)',
                 'CPython threads (real threading.Thread objects)',
                 'libc tzset/localtime via time.tzset()'],
        'stub': ['scheduler (baton passing; decides which thread runs at '
                 'every traced pamqp source line)', 'caller programs',
                 'pristine reference (fork-per-operation child that never '
                 'ran any other library call)', 'TZ seam '
                 '(os.environ[TZ] + time.tzset)'],
    },
}


def load_manifest_levels():
    return {}


def do_replay(check, path):
    mod = importlib.import_module(SPEC_OF[check])
    core.quiet_library_logging()
    try:   # the address-space limit every run executes under
        import resource
        resource.setrlimit(resource.RLIMIT_AS, (3 * 1024 ** 3,) * 2)
    except (ValueError, OSError):
        pass
    body = json.load(open(path))
    trace = body['trace']
    hs = body.get('hashseed')
    if hs and os.environ.get('PYTHONHASHSEED') != str(hs):
        env = dict(os.environ, PYTHONHASHSEED=str(hs))
        os.execve(sys.executable, [sys.executable] + sys.argv, env)
    if body.get('pyopt') and not sys.flags.optimize:
        env = dict(os.environ, PYTHONOPTIMIZE='1')
        os.execve(sys.executable, [sys.executable] + sys.argv, env)
    if body.get('pywarn') and \
            os.environ.get('PYTHONWARNINGS') != body['pywarn']:
        env = dict(os.environ, PYTHONWARNINGS=body['pywarn'])
        os.execve(sys.executable, [sys.executable] + sys.argv, env)
    res = mod.execute(check, trace, True)
    v = res['violation']
    print('REPLAY check=%s file=%s digest=%s' % (check, path, res['digest']))
    if v is None:
        print('REPLAY-RESULT no violation on this tree')
        return 0
    same = v.cls == body['violation'].get('class')
    print('REPLAY-RESULT violation class=%s detail=%s' % (
        json.dumps(v.cls), v.detail))
    if body.get('digest') and body['digest'] != res['digest']:
        print('REPLAY-NOTE digest differs from the recorded one '
              '(recorded %s)' % body['digest'])
    print('VIOLATION property=%s replay=%s%s' % (
        v.prop, path, '' if same else ' (different class than recorded)'))
    return 1


def determinism_sample(mod, check, tier, plan, n=32):
    """Same seed twice, in-process: digests must agree (cheap sample; the
    full self-test with fresh interpreters and other hash seeds is
    `./run selftest-determinism`)."""
    seed = core.base_seed()
    bad = []
    cnt = 0
    pops = [p for p, _ in plan]
    heavy_done = set()
    for j in range(n):
        population = pops[j % len(pops)]
        i = j // len(pops)
        if population in core.HEAVY_POPULATIONS:
            # long runs: one seed twice is what the sample can afford (the
            # full self-test covers them like any other population)
            if population in heavy_done:
                continue
            heavy_done.add(population)
        d = []
        try:
            for _ in range(2):
                trace = core.isolated_generate(SPEC_OF[check], check, seed,
                                               population, tier, i, i + 1)[0]
                d.append(core.isolated_execute(SPEC_OF[check], check,
                                               trace)['digest'])
        except core.ChildFailed:
            continue   # a stalled/crashed run is the batch's business
        cnt += 1
        if d[0] != d[1]:
            bad.append((population, i))
    return cnt, bad


def main(argv):
    check = argv[0]
    args = argv[1:]
    if check not in SPEC_OF:
        print('unknown check %r' % check)
        return 2
    if '--replay' in args:
        return do_replay(check, args[args.index('--replay') + 1])
    tier = os.environ.get('VERIF_TIER') or 'quick'
    for a in args:
        if a in ('quick', 'thorough'):
            tier = a
    scale = float(os.environ.get('VERIF_SCALE', '1'))
    mod = importlib.import_module(SPEC_OF[check])
    core.quiet_library_logging()
    seed = core.base_seed()
    print('VERIF_SEED=%d check=%s tier=%s PAMQP_SRC=%s hashseed=%s' % (
        seed, check, tier, os.environ.get('PAMQP_SRC', '/repo'),
        os.environ.get('PYTHONHASHSEED')))
    sys.stdout.flush()
    t0 = time.time()
    plan = [(p, max(1, int(n * scale))) for p, n in mod.PLANS[check][tier]]
    if os.environ.get('VERIF_POPS'):
        # debugging aid: restrict the plan to some populations ("name" or
        # "name:count")
        want = dict((x.split(':') + [None])[:2]
                    for x in os.environ['VERIF_POPS'].split(','))
        plan = [(p, int(want[p]) if want[p] else n) for p, n in plan
                if p in want]
    if hasattr(mod, 'prepare'):
        mod.prepare(check, tier, plan)
    wall_cap = float(os.environ.get(
        'VERIF_WALL_CAP', '1500' if tier == 'quick' else '14000'))
    agg, info = core.run_batches(SPEC_OF[check], check, tier, plan,
                                 wall_cap=wall_cap)
    det_n, det_bad = (0, []) if os.environ.get('VERIF_SUBBATCH') else \
        determinism_sample(mod, check, tier, plan)
    known, fixed = core.load_known()
    exit_code = 0
    lines = []
    reported = []
    # harness problems first: they are never a verdict
    harness_problem = None
    if agg.harness_errors:
        harness_problem = 'harness exception in %d runs; first: %s' % (
            len(agg.harness_errors), agg.harness_errors[0])
    if det_bad:
        harness_problem = 'determinism sample: digests differ for %r' % (
            det_bad[:3],)
    backstop = []
    if info['confirmed_crashes']:
        harness_problem = ('worker crashed again when the run was retried '
                           'alone: %r' % (info['confirmed_crashes'][:4],))
    if info['confirmed_timeouts']:
        if check == 'C08':
            backstop = [tuple(x) for x in info['confirmed_timeouts']]
        else:
            harness_problem = ('run stalled (no progress for the stall '
                               'limit) also when retried alone: %r' % (
                                   info['confirmed_timeouts'][:4],))
    if agg.probes.get('harness_out_of_step') and not agg.violations:
        harness_problem = ('a receiver went out of step with the sent '
                           'stream in %d runs although no oracle fired' %
                           agg.probes['harness_out_of_step'])
    confirmed = {(x[0], x[1]) for x in info['confirmed_timeouts'] +
                 info['confirmed_crashes']}
    info['transient_worker_failures'] = [
        x for x in info['transient_worker_failures']
        if (x[0], x[1]) not in confirmed]
    if info['transient_worker_failures']:
        print('NOTE %d worker failure(s) did not recur when the run was '
              'retried alone in a fresh worker: %r' % (
                  len(info['transient_worker_failures']),
                  info['transient_worker_failures'][:4]))
    for population, i, cls, vjson, trace in agg.violations:
        prop = vjson['property']
        k = core.is_known(known, prop, cls)
        if k is not None:
            lines.append('KNOWN-FINDING: property=%s %s class=%s' % (
                prop, k['what'], json.dumps(cls)))
            reported.append({'class': cls, 'known': True})
            continue
        # shrink, write replay, verify in a fresh interpreter
        vbuf = None
        try:
            res0 = core.isolated_execute(SPEC_OF[check], check, trace)
        except core.ChildFailed as e:
            harness_problem = 'violating run %s/%d: %s' % (population, i, e)
            continue
        v0 = res0['violation']
        if v0 is None or v0.cls != cls:
            harness_problem = ('violation of run %s/%d did not reproduce '
                               'in the parent' % (population, i))
            continue
        vbuf = getattr(v0, 'buf', None)
        small, execs, ok = mod.shrink(check, trace, cls, vbuf)
        try:
            res1 = core.isolated_execute(SPEC_OF[check], check, small)
            v1 = res1['violation']
        except core.ChildFailed:
            res1, v1 = res0, None
        if v1 is None or v1.cls != cls:
            small, res1, v1 = trace, res0, v0
        path = core.write_replay(check, prop, population, i, small,
                                 v1.to_json(), res1['digest'],
                                 small is not trace,
                                 'shrunk with %d re-executions' % execs)
        rc, out = core.replay_in_fresh_process(check, path)
        if rc != 1 or ('digest=%s' % res1['digest']) not in out:
            # fall back to the unminimised trace
            path = core.write_replay(check, prop, population, i, trace,
                                     v0.to_json(), res0['digest'], False,
                                     'minimised trace did not reproduce in a '
                                     'fresh process')
            rc, out = core.replay_in_fresh_process(check, path)
            if rc != 1:
                harness_problem = ('replay of %s did not reproduce in a '
                                   'fresh interpreter:\n%s' % (path, out))
                continue
        lines.append('VIOLATION property=%s replay=%s' % (prop, path))
        lines.append('  class=%s' % json.dumps(cls))
        lines.append('  %s' % v1.detail)
        reported.append({'class': cls, 'known': False, 'replay': path,
                         'detail': v1.detail})
        exit_code = 1
    for population, i in backstop:
        trace = core.isolated_generate(SPEC_OF[check], check, seed,
                                       population, tier, i, i + 1)[0]
        vj = {'property': 'C08', 'oracle': 'backstop',
              'class': ['backstop'],
              'detail': 'worker running %s/%d died or exceeded the wall '
                        'backstop while the step meter was silent '
                        '(C-level unbounded work or memory)' % (population,
                                                                  i)}
        k = core.is_known(known, 'C08', ['backstop'])
        if k is None:
            path = core.write_replay(check, 'C08', population, i, trace, vj,
                                     '', False, 'wall-clock backstop verdict')
            lines.append('VIOLATION property=C08 replay=%s' % path)
            lines.append('  %s' % vj['detail'])
            exit_code = 1
    hashseed_batches = []
    if not os.environ.get('VERIF_SUBBATCH'):
        # The interpreter's configuration is ambient state too.  A fraction
        # of the plan is executed again in fresh interpreters
        #  - under `python -O` (asserts stripped, __debug__ false): all checks;
        #  - under other hash seeds (C12 only; the pristine reference stays at
        #    PYTHONHASHSEED=0, so any dependence of the bytes on the hash seed
        #    fails the fresh-interpreter oracle there).
        import subprocess
        import tempfile
        import shutil
        main_digests = dict(d.split('=') for d in
                            agg.extra.get('digests', ()))
        configs = [('pyopt', '1', {'PYTHONOPTIMIZE': '1'}, 0.12),
                   # warnings promoted to errors (-W error), except the
                   # DeprecationWarning family, which the pinned library
                   # issues itself (Basic.RecoverAsync) and Python ignores
                   # by default: a warning added on a codec path must not
                   # turn into an exception of a foreign type there.
                   ('pywarn', PYWARN, {'PYTHONWARNINGS': PYWARN}, 0.08)]
        if check == 'C12':
            derived = str(core.run_seed(check, seed, 'hashseed', 0) %
                          4000000000)
            configs += [('hashseed', '1', {'PYTHONHASHSEED': '1'}, 0.25),
                        ('hashseed', derived, {'PYTHONHASHSEED': derived},
                         0.25)]
        for kind, val, envx, frac in configs:
            tmp = tempfile.mkdtemp(prefix='verif-sub-')
            try:
                env = dict(os.environ, VERIF_SUBBATCH='%s=%s' % (kind, val),
                           VERIF_SCALE=str(scale * frac),
                           VERIF_EVIDENCE_DIR=tmp)
                env.update(envx)
                p = subprocess.run(
                    [sys.executable, os.path.join(core.VERIF, 'run'), check,
                     tier], capture_output=True, text=True, env=env,
                    cwd=core.VERIF, timeout=wall_cap)
                out_lines = p.stdout.splitlines()
                sub = {kind: val, 'rc': p.returncode}
                try:
                    ev = json.load(open(os.path.join(tmp, check + '.json')))
                    sub['runs'] = ev['coverage']['evaluations']
                    sub['oracle_evaluations'] = \
                        ev['coverage']['oracle_evaluations']
                    their = dict(d.split('=') for d in
                                 ev['coverage']['digest_sample'])
                    common = [k for k in their if k in main_digests]
                    differ = [k for k in common
                              if their[k] != main_digests[k]]
                    sub['digests_compared_with_main_batch'] = len(common)
                    sub['digests_differing'] = len(differ)
                    if differ and p.returncode == 0 and kind == 'hashseed':
                        harness_problem = (
                            'event-log digests differ between PYTHONHASHSEED'
                            '=0 and =%s for runs %r although no oracle '
                            'failed' % (val, differ[:4]))
                except Exception as e:
                    sub['error'] = repr(e)
                if p.returncode == 1:
                    exit_code = 1
                    for i, ln in enumerate(out_lines):
                        if ln.startswith('VIOLATION'):
                            lines.extend(out_lines[i:i + 3])
                            lines.append('  (found under %s=%s)' % (
                                'python -O, PYTHONOPTIMIZE' if kind == 'pyopt'
                                else 'PYTHONWARNINGS' if kind == 'pywarn'
                                else 'PYTHONHASHSEED', val))
                            reported.append({kind: val, 'line': ln,
                                             'known': False})
                elif p.returncode != 0:
                    harness_problem = ('%s=%s sub-batch exited %d: %s'
                                       % (kind, val, p.returncode,
                                          (p.stdout + p.stderr)[-600:]))
                hashseed_batches.append(sub)
            finally:
                shutil.rmtree(tmp, ignore_errors=True)
    wall = time.time() - t0
    runs_per_hour = int(agg.runs / max(info['wall_s'], 1e-6) * 3600)
    world = 'A' if SPEC_OF[check] == 'sim.check_a' else 'B'
    coverage = {
        'evaluations': agg.runs,
        'distinct_nontrivial': len(agg.nontrivial),
        'rule': mod.RULE[check] if hasattr(mod, 'RULE') else '',
        'samples': agg.samples[:3],
        'planned_runs': info['planned'],
        'runs_per_population': info['per_population'],
        'runs_per_hour': runs_per_hour,
        'workers': info['workers'],
        'verif_seed': seed,
        'seed_derivation': 'run i of population p uses random.Random('
                           'sha256("<check>/<VERIF_SEED>/<p>/<i>")[:8])',
        'simulated_time': {
            'link_or_scheduler_events': agg.events,
            'library_calls': agg.calls,
            'interpreter_steps_inside_library_calls': agg.steps,
            'note': 'pamqp reads no clock; simulated time is logical '
                    '(events and interpreter steps), there is no '
                    'wall-clock-equivalent duration',
        },
        'fault_kinds_fired': dict(sorted(agg.fired.items())),
        'oracle_evaluations': dict(sorted(agg.oracles.items())),
        'probes': dict(sorted(agg.probes.items())),
        'extra': {k: (sorted(v)[:50] if isinstance(v, set) else v)
                  for k, v in sorted(agg.extra.items())},
        'worker_failures': {
            'transient_not_recurring': info['transient_worker_failures'],
            'confirmed_timeouts': info['confirmed_timeouts'],
            'confirmed_crashes': info['confirmed_crashes']},
        'digest_sample': sorted(agg.extra.pop('digests', ())),
        'interpreter_configuration_batches': hashseed_batches,
        'determinism_sample': {'seeds_run_twice': det_n,
                               'mismatches': len(det_bad)},
        'components': REAL_STUB[world],
        'violations_reported': reported,
        'known_findings_file': [k['what'] for k in known],
        'exhaustive': False,
    }
    if hasattr(mod, 'extra_coverage'):
        coverage.update(mod.extra_coverage(check, tier, agg))
    assumptions = mod.ASSUMPTIONS.get(check, []) if hasattr(
        mod, 'ASSUMPTIONS') else []
    if (len(agg.nontrivial) >= 2 or os.environ.get('VERIF_SUBBATCH')) \
            and agg.runs >= 1:
        core.write_evidence(check, tier, mod.LEVEL[check], coverage,
                            assumptions, wall,
                            sum(1 for r in reported if not r['known']))
    else:
        harness_problem = harness_problem or (
            'fewer than two distinct non-trivial runs (%d runs)' % agg.runs)
    for ln in lines:
        print(ln)
    print('SUMMARY check=%s tier=%s runs=%d distinct_nontrivial=%d '
          'events=%d calls=%d steps=%d wall=%.1fs runs/hour=%d' % (
              check, tier, agg.runs, len(agg.nontrivial), agg.events,
              agg.calls, agg.steps, wall, runs_per_hour))
    print('FAULTS ' + json.dumps(dict(sorted(agg.fired.items()))))
    print('ORACLES ' + json.dumps(dict(sorted(agg.oracles.items()))))
    print('PROBES ' + json.dumps(dict(sorted(agg.probes.items()))))
    if harness_problem:
        print('HARNESS-ERROR ' + harness_problem)
        return 2 if exit_code == 0 else exit_code
    if info['timed_out']:
        print('HARNESS-ERROR wall cap reached before the plan finished')
        return 2 if exit_code == 0 else exit_code
    return exit_code
