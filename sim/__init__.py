"""Deterministic simulation harness for gmr/pamqp (see /verif/DESIGN.md)."""
