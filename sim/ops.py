"""Closed operations over literal inputs: the vocabulary of World B programs.

Self-contained ("catalogue") operations are evaluated identically by the
simulated caller threads and by the pristine reference (a fork of an
interpreter that never ran any other library call):

  marshal    {'frame': desc}                  -> ['bytes', hex]
  construct  {'frame': desc}                  -> ['obj', canonical frame]
  unmarshal  {'b': hex}                       -> ['frame', n, ch, canonical]
  enc        {'fn': name, 'v': value desc}    -> ['bytes', hex]
  dec        {'fn': name, 'b': hex}           -> ['val', consumed, canonical]

Every failure is ['EXC', qualified type name, normalised message].
"""
from sim import lib, gen
from sim.values import (from_desc, canon_value, canon_frame, canon_exc)

ENC_FUNCS = ('field_table', 'field_array', 'table_integer',
             'encode_table_value', 'timestamp', 'short_int', 'short_uint',
             'long_int', 'long_uint', 'long_long_int', 'octet', 'boolean',
             'decimal', 'floating_point', 'double', 'long_string',
             'short_string', 'byte_array')
DEC_FUNCS = ('field_table', 'field_array', 'embedded_value', 'timestamp',
             'long_str', 'short_str', 'decimal', 'long_long_int',
             'byte_array')


def _hex(b):
    return ['bytes', bytes(b).hex()] if isinstance(b, (bytes, bytearray)) \
        else ['notbytes', canon_value(b)]


def build_input(op):
    """The live input object(s) of a self-contained op (fresh every time)."""
    k = op['op']
    if k in ('marshal', 'construct'):
        return gen.build_frame(op['frame'])
    if k == 'enc':
        return from_desc(op['v'])
    if k in ('unmarshal', 'dec', 'remarshal'):
        return bytes.fromhex(op['b'])
    raise ValueError('not a self-contained op: %r' % (k,))


def snapshot_input(op, live):
    k = op['op']
    if k in ('marshal', 'construct'):
        obj, ch = live
        if isinstance(obj, bytes):
            return ['raw', obj.hex()]
        return canon_frame(obj)
    if k == 'enc':
        return canon_value(live)
    return None


def apply_op(op, live):
    """Run the library call of a self-contained op on its live input.
    Returns (canonical result, live result object or None).  Exceptions of
    class Exception are results; BaseExceptions (cancel, budget) propagate."""
    k = op['op']
    try:
        if k == 'marshal':
            obj, ch = live
            out = lib.frame.marshal(obj, ch)
            return _hex(out), None
        if k == 'construct':
            obj, ch = live
            return ['obj', canon_frame(obj)], obj
        if k == 'unmarshal':
            n, ch, f = lib.frame.unmarshal(live)
            return ['frame', n, ch, canon_frame(f)], f
        if k == 'remarshal':
            n, ch, f = lib.frame.unmarshal(live)
            return _hex(lib.frame.marshal(f, ch)), f
        if k == 'enc':
            out = getattr(lib.encode, op['fn'])(live)
            return _hex(out), None
        if k == 'dec':
            n, v = getattr(lib.decode, op['fn'])(live)
            return ['val', n, canon_value(v)], v
    except Exception as e:
        return canon_exc(e), None
    raise ValueError('unknown op %r' % (k,))


def eval_self_contained(op):
    """Build + apply, with construction failures as results too."""
    try:
        live = build_input(op)
    except Exception as e:
        return canon_exc(e), None, None
    res, obj = apply_op(op, live)
    return res, obj, live


def op_key(op):
    import json
    return json.dumps({k: op[k] for k in ('op', 'frame', 'b', 'fn', 'v')
                       if k in op}, sort_keys=True)
