"""Step meter: a logical clock inside library calls (sys.monitoring, 3.12).

Counts PY_START (every call / recursion), JUMP (every loop back-edge) and
BRANCH events in code objects whose file is under the pamqp source directory;
everything else is DISABLEd at its first event.  When the count passes the
budget the callback raises StepBudgetExceeded (a BaseException) into the
library code, and keeps raising on every further event, so an
`except Exception` cannot resume the computation.  No wall clock, no signal:
an unbounded loop is an ordinary, replayable outcome.
"""
import sys

from sim import lib

mon = sys.monitoring
TOOL = 3
E = mon.events


class StepBudgetExceeded(BaseException):
    pass


class Meter:
    def __init__(self):
        self.count = 0
        self.budget = 1 << 62
        self.tripped = False
        self.where = None
        self.last_loop = None
        self.active = False
        self._installed = False

    def install(self):
        if self._installed:
            return
        mon.use_tool_id(TOOL, 'verif-step-meter')
        is_lib = lib.is_lib_file
        DISABLE = mon.DISABLE

        def on_start(code, offset):
            if not is_lib(code.co_filename):
                return DISABLE
            if not self.active:
                return None
            self.count += 1
            if self.count > self.budget:
                self.tripped = True
                if self.where is None:
                    self.where = self.last_loop or code.co_qualname
                raise StepBudgetExceeded(code.co_qualname)

        def on_jump(code, src, dst):
            if not is_lib(code.co_filename):
                return DISABLE
            if not self.active:
                return None
            self.count += 1
            if dst < src:
                self.last_loop = code.co_qualname
            if self.count > self.budget:
                self.tripped = True
                if self.where is None:
                    # name the function that owns the most recent loop
                    # back-edge: stable wherever in the loop body we stop
                    self.where = self.last_loop or code.co_qualname
                raise StepBudgetExceeded(code.co_qualname)

        def on_branch(code, src, dst):
            if not is_lib(code.co_filename):
                return DISABLE
            if not self.active:
                return None
            self.count += 1
            if self.count > self.budget:
                self.tripped = True
                if self.where is None:
                    self.where = self.last_loop or code.co_qualname
                raise StepBudgetExceeded(code.co_qualname)

        mon.register_callback(TOOL, E.PY_START, on_start)
        mon.register_callback(TOOL, E.JUMP, on_jump)
        mon.register_callback(TOOL, E.BRANCH, on_branch)
        mon.set_events(TOOL, E.PY_START | E.JUMP | E.BRANCH)
        self._installed = True

    def uninstall(self):
        if self._installed:
            mon.set_events(TOOL, 0)
            mon.free_tool_id(TOOL)
            self._installed = False

    def run(self, fn, arg, budget):
        """Call fn(arg) under the meter.
        Returns (status, value, steps): status 'ok' | 'exc' | 'budget'."""
        self.count = 0
        self.budget = budget
        self.tripped = False
        self.where = None
        self.last_loop = None
        self.active = True
        try:
            v = fn(arg)
            status = 'ok'
        except StepBudgetExceeded as e:
            v = e
            status = 'budget'
        except lib.Deadlock as e:
            v = e
            status = 'budget'
            self.where = 'deadlock'
        except Exception as e:
            v = e
            status = 'exc'
        finally:
            self.active = False
        if self.tripped:
            # A swallowed budget exception must not turn into a normal result.
            status = 'budget'
        return status, v, self.count


METER = Meter()
