"""Small executable reference models used as oracles in World B.

* the smallest-fit integer ladder and its legacy variant (C11),
* key order of emitted tables (C12),
* UTC seconds of a timestamp input by civil-date arithmetic, using no
  time/calendar/local-time function (C15).
"""
import datetime
import time

from sim import lib, wiremap
from sim.values import from_desc

INT_TAGS = (b'b', b'B', b's', b'u', b'I', b'i', b'l', b'L')
UTC = datetime.timezone.utc
EPOCH = datetime.datetime(1970, 1, 1, tzinfo=UTC)


# ----------------------------------------------------------------- C11 model

def ladder(n, legacy):
    """(tag, width) the documented ladder assigns to integer n, or None if
    n must be refused with TypeError."""
    if -128 <= n <= 127:
        return b'b', 1
    if -32768 <= n <= 32767:
        return b's', 2
    if not legacy and 0 <= n <= 65535:
        return b'u', 2
    if -2147483648 <= n <= 2147483647:
        return b'I', 4
    if not legacy and 0 <= n <= 4294967295:
        return b'i', 4
    if -9223372036854775808 <= n <= 9223372036854775807:
        return b'l', 8
    return None


def ladder_bytes(n, legacy):
    m = ladder(n, legacy)
    if m is None:
        return None
    tag, w = m
    return tag + n.to_bytes(w, 'big', signed=tag not in (b'u', b'i'))


FIXED_RANGES = {
    'short_int': (-32768, 32767, 2, True),
    'short_uint': (0, 65535, 2, False),
    'long_int': (-2147483648, 2147483647, 4, True),
    'long_uint': (0, 4294967295, 4, False),
    'long_long_int': (-9223372036854775808, 9223372036854775807, 8, True),
}


def ints_in(v):
    """Integers of a field value in the order the wire carries them
    (tables sorted by key, arrays in order).  Mirrors traversal order only."""
    if isinstance(v, bool):
        return
    if isinstance(v, int):
        yield v
    elif isinstance(v, dict):
        for k in sorted(v):
            for x in ints_in(v[k]):
                yield x
    elif isinstance(v, list):
        for i in v:
            for x in ints_in(i):
                yield x


def emitted_ints(buf, fields):
    out = []
    for i, f in enumerate(fields):
        if f[2] == 'tag' and f[3] in INT_TAGS:
            raw = b''
            if i + 1 < len(fields) and fields[i + 1][2] == 'fixed':
                o, n = fields[i + 1][0], fields[i + 1][1]
                raw = bytes(buf[o:o + n])
            out.append((f[3], raw))
    return out


def frame_tables(op):
    """Input field values of a frame descriptor that are encoded as tables,
    in wire order."""
    f = op['frame']
    vals = []
    if f['k'] == 'method':
        cls = lib.commands.INDEX_MAPPING
        from sim import gen
        c = gen.classes()[f['cls']]
        for s in c.__slots__:
            if c.amqp_type(s) == 'table':
                v = f['args'].get(s)
                vals.append(from_desc(v) if v is not None else {})
    elif f['k'] == 'header':
        P = lib.commands.Basic.Properties
        for s in P.__slots__:
            if P.amqp_type(s) == 'table' and s in f['props']:
                vals.append(from_desc(f['props'][s]))
    return vals


def check_c11(run, rec, got):
    op = rec.op
    if not op.get('c11'):
        return
    k = op['op']
    legacy_now = rec.switch_at_inv
    states = [legacy_now]
    if run.overlapped(rec, run.toggle_seqs):
        states = [False, True]
    if k == 'enc' and op['fn'] in FIXED_RANGES:
        run.oracle('C11.fixed_width')
        lo, hi, w, signed = FIXED_RANGES[op['fn']]
        n = from_desc(op['v'])
        if lo <= n <= hi:
            want = ['bytes', n.to_bytes(w, 'big', signed=signed).hex()]
            if got != want:
                run.fail('C11', 'fixed', ['fixed-width', op['fn'], 'in-range'],
                         'encode.%s(%d) gave %s, expected %s' % (
                             op['fn'], n, got, want))
        else:
            if got[0] != 'EXC' or got[1] != 'builtins.TypeError':
                run.fail('C11', 'fixed', ['fixed-width', op['fn'],
                                          'out-of-range'],
                         'encode.%s(%d) is out of range and must raise '
                         'TypeError, gave %s' % (op['fn'], n, got[:2]))
        return
    if k == 'enc':
        vals = [from_desc(op['v'])]
    elif k == 'marshal':
        vals = frame_tables(op)
    else:
        return
    ints = [x for v in vals for x in ints_in(v)]
    if not ints and k != 'enc':
        return
    run.oracle('C11.ladder')
    if any(ladder(n, False) is None for n in ints):
        run.probe('c11_out_of_range_int')
        if got[0] != 'EXC' or got[1] != 'builtins.TypeError':
            run.fail('C11', 'ladder', ['out-of-range-accepted'],
                     'a table holding an integer outside [-2^63, 2^63-1] '
                     'must be refused with TypeError; got %s' % (got[:2],))
        return
    if got[0] != 'bytes':
        bad = [n for n in ints]
        run.fail('C11', 'ladder', ['in-range-refused', got[1]],
                 'integers %s are all within [-2^63, 2^63-1] but encoding '
                 'raised %s: %s' % (bad[:6], got[1], got[2][:120]))
        return
    buf = bytes.fromhex(got[1])
    fields = []
    try:
        if k == 'marshal':
            fields = wiremap.walk_frame(buf)
        elif op['fn'] == 'field_table':
            wiremap.walk_table(buf, 0, fields)
        elif op['fn'] == 'field_array':
            wiremap.walk_array(buf, 0, fields)
        else:  # table_integer / encode_table_value: one tagged value
            end = wiremap.walk_value(buf, 0, fields)
            if end != len(buf):
                raise wiremap.WalkError('trailing bytes')
    except wiremap.WalkError as e:
        run.fail('C11', 'ladder', ['unwalkable-output'],
                 'encoder output is not a well-formed field encoding (%s): '
                 '%s' % (e, got[1][:120]))
        return
    emitted = emitted_ints(buf, fields)
    if len(emitted) != len(ints):
        run.fail('C11', 'ladder', ['int-count'],
                 '%d integers went in, %d integer-tagged values came out' % (
                     len(ints), len(emitted)))
        return
    for n, (tag, raw) in zip(ints, emitted):
        wants = [ladder_bytes(n, s) for s in states]
        if tag + raw not in wants:
            want = wants[0]
            depth = 'nested' if len(ints) > 1 or k != 'enc' or \
                op['fn'] not in ('table_integer', 'encode_table_value') \
                else 'top'
            run.fail('C11', 'ladder',
                     ['wrong-tag', 'legacy' if legacy_now else 'full',
                      want[:1].decode('latin1'), tag.decode('latin1')],
                     'integer %d was encoded as tag %r value %s; the %s '
                     'ladder requires tag %r value %s (%s position)' % (
                         n, tag, raw.hex(),
                         'legacy' if legacy_now else 'full', want[:1],
                         want[1:].hex(), depth))
            return
        if len(states) == 1 and legacy_now and tag in (b'u', b'i', b'B',
                                                       b'L'):
            run.fail('C11', 'ladder', ['unsigned-in-legacy'],
                     'tag %r emitted while legacy support is on' % tag)
            return
    run.probe('c11_ints_checked', len(ints))


# ----------------------------------------------------------------- C12 model

def check_c12_order(run, rec, got):
    op = rec.op
    k = op['op']
    if got[0] != 'bytes':
        return
    if k == 'enc' and op['fn'] not in ('field_table', 'field_array',
                                       'encode_table_value'):
        return
    if k not in ('enc', 'marshal', 'marshal_slot'):
        return
    buf = bytes.fromhex(got[1])
    fields = []
    try:
        if k in ('marshal', 'marshal_slot'):
            fields = wiremap.walk_frame(buf)
        elif op['fn'] == 'field_table':
            wiremap.walk_table(buf, 0, fields)
        elif op['fn'] == 'field_array':
            wiremap.walk_array(buf, 0, fields)
        else:
            wiremap.walk_value(buf, 0, fields)
    except wiremap.WalkError:
        run.probe('c12_unwalkable_output')
        return
    run.oracle('C12.key_order')
    last = {}
    # a table is identified by the offset of its length field: entries
    # between one 'table_len' and the next belong to the innermost table
    stack = []
    for f in fields:
        off, n, kind, info, path = f
        if kind == 'key_len':
            key = b''
            # the key bytes follow directly (absent for an empty key)
            key = bytes(buf[off + 1:off + 1 + buf[off]])
            prev = last.get(path)
            if prev is not None and key < prev:
                run.fail('C12', 'order', ['key-order'],
                         'table at %r emits key %r after %r' % (
                             [p.decode('utf-8', 'replace')
                              if isinstance(p, bytes) else p for p in path],
                             key[:40], prev[:40]))
                return
            last[path] = key
    run.probe('c12_tables_walked')


# ----------------------------------------------------------------- C15 model

def days_from_civil(y, m, d):
    y -= m <= 2
    era = (y if y >= 0 else y - 399) // 400
    yoe = y - era * 400
    doy = (153 * (m + (-3 if m > 2 else 9)) + 2) // 5 + d - 1
    doe = yoe * 365 + yoe // 4 - yoe // 100 + doy
    return era * 146097 + doe - 719468


def utc_seconds(v):
    """Seconds since the epoch the property assigns to a timestamp input."""
    if isinstance(v, time.struct_time):
        return days_from_civil(v.tm_year, v.tm_mon, v.tm_mday) * 86400 + \
            v.tm_hour * 3600 + v.tm_min * 60 + v.tm_sec
    if v.tzinfo is None or v.tzinfo.utcoffset(v) is None:
        return days_from_civil(v.year, v.month, v.day) * 86400 + \
            v.hour * 3600 + v.minute * 60 + v.second
    d = v - EPOCH
    return d.days * 86400 + d.seconds


def datetimes_in(c, out):
    """All canonical datetime nodes inside a canonical result."""
    if isinstance(c, list):
        if len(c) >= 2 and c[0] == 'T' and c[1] in ('aware', 'naive'):
            out.append(c)
            return
        for i in c:
            datetimes_in(i, out)


def timestamps_in(v):
    """Timestamp inputs of a field value in wire order."""
    if isinstance(v, (datetime.datetime, time.struct_time)):
        yield v
    elif isinstance(v, dict):
        for key in sorted(v):
            for x in timestamps_in(v[key]):
                yield x
    elif isinstance(v, list):
        for i in v:
            for x in timestamps_in(i):
                yield x


def frame_timestamps(op):
    f = op['frame']
    out = []
    if f['k'] == 'method':
        from sim import gen
        c = gen.classes()[f['cls']]
        for s in c.__slots__:
            if c.amqp_type(s) == 'table' and f['args'].get(s) is not None:
                out.extend(timestamps_in(from_desc(f['args'][s])))
    elif f['k'] == 'header':
        P = lib.commands.Basic.Properties
        for s in P.__slots__:
            if s in f['props']:
                if P.amqp_type(s) == 'table':
                    out.extend(timestamps_in(from_desc(f['props'][s])))
                elif P.amqp_type(s) == 'timestamp':
                    out.append(from_desc(f['props'][s]))
    return out


def check_c15_embedded(run, rec, got):
    """Every timestamp inside an encoded table / frame denotes the instant
    the property assigns to its input (not only: is the same in every zone)."""
    op = rec.op
    k = op['op']
    if got[0] != 'bytes':
        return
    try:
        if k == 'marshal':
            inputs = frame_timestamps(op)
        elif k == 'enc' and op['fn'] in ('field_table', 'field_array',
                                         'encode_table_value'):
            inputs = list(timestamps_in(from_desc(op['v'])))
        else:
            return
    except Exception:
        return
    if not inputs:
        return
    buf = bytes.fromhex(got[1])
    fields = []
    try:
        if k == 'marshal':
            fields = wiremap.walk_frame(buf)
        elif op['fn'] == 'field_table':
            wiremap.walk_table(buf, 0, fields)
        elif op['fn'] == 'field_array':
            wiremap.walk_array(buf, 0, fields)
        else:
            wiremap.walk_value(buf, 0, fields)
    except wiremap.WalkError:
        run.probe('c15_unwalkable_output')
        return
    emitted = [int.from_bytes(buf[f[0]:f[0] + 8], 'big') for f in fields
               if f[2] == 'timestamp']
    run.oracle('C15.embedded_instant')
    if len(emitted) != len(inputs):
        run.probe('c15_timestamp_count_mismatch')
        return
    for v, e in zip(inputs, emitted):
        secs = utc_seconds(v)
        if 0 <= secs < 2 ** 64 and e != secs:
            kind = 'struct_time' if isinstance(v, time.struct_time) else (
                'naive' if v.tzinfo is None or v.utcoffset() is None
                else 'aware')
            run.fail('C15', 'instant', ['encode-instant-embedded', kind],
                     '%s carrying %r under zone %s encodes the timestamp as '
                     '%d; the instant is %d seconds after the epoch' % (
                         'frame' if k == 'marshal' else op['fn'], v,
                         rec.zone, e, secs))
            return


def check_c15(run, rec, got):
    op = rec.op
    k = op['op']
    check_c15_embedded(run, rec, got)
    if k == 'enc' and op['fn'] == 'timestamp':
        v = from_desc(op['v'])
        if isinstance(v, (datetime.datetime, time.struct_time)):
            secs = utc_seconds(v)
            if 0 <= secs < 2 ** 64:
                run.oracle('C15.encode_instant')
                want = ['bytes', secs.to_bytes(8, 'big').hex()]
                if got != want:
                    kind = 'struct_time' if isinstance(v, time.struct_time) \
                        else ('naive' if v.tzinfo is None else 'aware')
                    run.fail('C15', 'instant', ['encode-instant', kind],
                             'encode.timestamp(%r) under zone %s gave %s; '
                             'the instant is %d seconds after the epoch '
                             '(%s)' % (v, rec.zone, got[1][:32], secs,
                                       want[1]))
                    return
    if k == 'dec' and op['fn'] == 'timestamp' and got[0] == 'val':
        raw = int.from_bytes(bytes.fromhex(op['b'])[:8], 'big')
        if raw <= 0xFFFFFFFF:
            run.oracle('C15.decode_instant')
            c = got[2]
            if c[:2] != ['T', 'aware'] or c[2] != raw or c[4] != 0:
                run.fail('C15', 'instant', ['decode-instant'],
                         'decode.timestamp of %d seconds under zone %s gave '
                         '%s' % (raw, rec.zone, c))
                return
    if got[0] in ('val', 'frame', 'obj'):
        dts = []
        datetimes_in(got, dts)
        if dts and k in ('dec', 'unmarshal'):
            run.oracle('C15.decoded_utc_aware')
            for c in dts:
                if c[1] != 'aware' or c[4] != 0:
                    run.fail('C15', 'aware', ['decoded-not-utc-aware'],
                             'a decoded timestamp under zone %s is %s '
                             '(must be tz-aware with zero offset)' % (
                                 rec.zone, c))
                    return
