"""World B - callers, history and ambient state.

1-4 real threads execute programs of closed operations against the real
library.  Exactly one thread holds the baton; a sys.monitoring LINE callback
on pamqp source lines is the pre-emption point, and the explicit schedule in
the trace ([[global_step, pick], ...]) decides where the baton moves and to
whom.  Cancel faults raise a private BaseException inside a library call at
a chosen step.  The process time zone and the legacy-integer switch are
ambient state the trace sets and changes (ops 'tz' and 'toggle').

One run = execute(trace, props, pristine): a pure function of the explicit
trace, the code under test and the pristine reference results.
"""
import atexit
import hashlib
import json
import os
import sys
import threading
import time

from sim import lib, ops, wiremap, models
from sim.meter import METER
from sim.values import canon_value, canon_frame, canon_exc, from_desc

mon = sys.monitoring
TOOL = 4
_installed = [False]
CURRENT = [None]
RUN_STEP_BUDGET = 3000000


class Cancelled(BaseException):
    pass


class HarnessCallbackError(BaseException):
    pass


class Violation(Exception):
    def __init__(self, prop, oracle, cls, detail, buf=None):
        Exception.__init__(self, '%s/%s %s' % (prop, oracle, detail))
        self.prop = prop
        self.oracle = oracle
        self.cls = cls
        self.detail = detail
        self.buf = None

    def to_json(self):
        return {'property': self.prop, 'oracle': self.oracle,
                'class': self.cls, 'detail': self.detail}


_WITH = {}


def _is_with_line(code, line):
    """An exception injected at the line event of a `with` statement can
    arrive after the body finished but before __exit__ is called (the
    normal-exit call is outside the protected range), which leaks the
    context manager - an artefact of asynchronous injection, not of the
    library.  The cancel fault waits for the next line instead."""
    key = (code.co_filename, line)
    v = _WITH.get(key)
    if v is None:
        import linecache
        src = linecache.getline(code.co_filename, line).strip()
        v = src.startswith(('with ', 'async with '))
        _WITH[key] = v
    return v


def install():
    if _installed[0]:
        return
    mon.use_tool_id(TOOL, 'verif-scheduler')
    is_lib = lib.is_lib_file
    DISABLE = mon.DISABLE

    def on_line(code, line):
        if not is_lib(code.co_filename):
            return DISABLE
        run = CURRENT[0]
        if run is not None:
            try:
                run.point(code, line)
            except Exception as e:
                # a mistake of the harness inside the callback must never
                # look like an exception raised by the library
                import traceback
                raise HarnessCallbackError('%r\n%s' % (
                    e, traceback.format_exc()[-1500:]))

    mon.register_callback(TOOL, mon.events.LINE, on_line)
    mon.set_events(TOOL, mon.events.LINE)
    _installed[0] = True
    atexit.register(uninstall)


def uninstall():
    if _installed[0]:
        try:
            mon.set_events(TOOL, 0)
            mon.free_tool_id(TOOL)
        except Exception:
            pass
        _installed[0] = False


def set_tz(zone):
    os.environ['TZ'] = zone
    time.tzset()


def constants_snapshot():
    """Canonical snapshot of the class-level objects nobody may write."""
    h = hashlib.sha256()
    items = []
    C = lib.commands
    for idx in sorted(C.INDEX_MAPPING):
        cls = C.INDEX_MAPPING[idx]
        items.append((idx, cls.name, cls.frame_id, cls.index,
                      cls.synchronous, list(cls.valid_responses),
                      list(cls.__slots__),
                      [getattr(cls, '_' + s) for s in cls.__slots__]))
    P = C.Basic.Properties
    items.append(('props', sorted(P.flags.items()), list(P.__slots__),
                  [getattr(P, '_' + s) for s in P.__slots__]))
    items.append(('base', list(lib.base.Frame.valid_responses),
                  sorted(lib.base.BasicProperties.flags.items())))
    items.append(('hb', lib.heartbeat.Heartbeat.value.hex()))
    items.append(('decM', sorted((k, v.__name__) for k, v in
                                 lib.decode.METHODS.items())))
    items.append(('decT', sorted((k.hex(), v.__name__) for k, v in
                                 lib.decode.TABLE_MAPPING.items())))
    items.append(('encM', sorted((k, getattr(v, '__name__', '?'))
                                 for k, v in lib.encode.METHODS.items())))
    items.append(('regex', sorted((k, v.pattern) for k, v in
                                  lib.constants.DOMAIN_REGEX.items())))
    items.append(('excmap', sorted((k, v.__name__) for k, v in
                                   lib.exceptions.CLASS_MAPPING.items())))
    h.update(repr(items).encode())
    return h.hexdigest()


def class_level_ids():
    """ids of mutable class-level objects that results must never alias."""
    out = {}
    C = lib.commands
    for idx in C.INDEX_MAPPING:
        cls = C.INDEX_MAPPING[idx]
        out[id(cls.valid_responses)] = cls.name + '.valid_responses'
        out[id(cls.__slots__)] = cls.name + '.__slots__'
        out[id(cls.__annotations__)] = cls.name + '.__annotations__'
    P = C.Basic.Properties
    out[id(P.flags)] = 'Basic.Properties.flags'
    out[id(P.__slots__)] = 'Basic.Properties.__slots__'
    out[id(lib.base.Frame.valid_responses)] = 'Frame.valid_responses'
    out[id(lib.base.BasicProperties.flags)] = 'BasicProperties.flags'
    return out


def mutable_members(obj, path, out, depth=0):
    """(id, path) of every mutable container/object reachable from a live
    result (the result object itself excluded)."""
    if depth > 40:
        return
    if isinstance(obj, (dict,)):
        for k, v in obj.items():
            _member(v, path + '[%r]' % (k,), out, depth)
    elif isinstance(obj, list):
        for i, v in enumerate(obj):
            _member(v, path + '[%d]' % i, out, depth)
    elif isinstance(obj, (lib.base.Frame, lib.base.BasicProperties)):
        for s in type(obj).__slots__:
            _member(getattr(obj, s, None), path + '.' + s, out, depth)
    elif isinstance(obj, lib.header.ContentHeader):
        _member(obj.properties, path + '.properties', out, depth)


def _member(v, path, out, depth):
    if isinstance(v, (dict, list, bytearray, lib.base.BasicProperties,
                      lib.base.Frame, lib.header.ContentHeader,
                      lib.body.ContentBody, lib.header.ProtocolHeader)):
        out.append((id(v), path))
        mutable_members(v, path, out, depth + 1)


def process_globals_snapshot():
    """Interpreter-wide settings a codec has no business changing: the
    warnings filter list, the decimal context's precision/rounding/traps
    (not its sticky flags, which arithmetic sets legitimately), the recursion
    limit and switch interval, the locale."""
    import decimal
    import locale
    import warnings
    ctx = decimal.getcontext()
    return {
        'warnings.filters': [repr(f) for f in warnings.filters],
        'decimal context': [ctx.prec, ctx.rounding, ctx.Emin, ctx.Emax,
                            sorted(str(k) for k, v in ctx.traps.items()
                                   if v)],
        'recursion limit': sys.getrecursionlimit(),
        'switch interval': sys.getswitchinterval(),
        'locale': list(locale.getlocale()),
    }


class OpRecord:
    __slots__ = ('tid', 'idx', 'op', 'inv', 'ret', 'res', 'live', 'inp',
                 'cancelled', 'dirty', 'switch_at_inv', 'snap_before',
                 'snap_after', 'zone', 'aborted', 'version', 'twin',
                 'ids_before', 'ids_after', 'kept', 'kept_version')


def identity_snapshot(live):
    """(path, id) of every mutable container nested in an encode input:
    the same objects must still sit in the same places afterwards (ids are
    compared within one process and never logged)."""
    obj = live[0] if isinstance(live, tuple) else live
    out = []
    if isinstance(obj, lib.body.ContentBody):
        _member(obj.value, '.value', out, 0)
    else:
        mutable_members(obj, '', out)
    return [(path, i) for i, path in out]


def structural_copy(obj):
    """A fresh object with equal contents and no hidden state: same class,
    deep copies of the public attributes only (slots / known fields)."""
    import copy
    if isinstance(obj, (lib.base.Frame, lib.base.BasicProperties)):
        new = type(obj).__new__(type(obj))
        for s_ in type(obj).__slots__:
            if hasattr(obj, s_):
                setattr(new, s_, structural_copy(getattr(obj, s_)))
        return new
    if isinstance(obj, lib.header.ContentHeader):
        new = lib.header.ContentHeader.__new__(lib.header.ContentHeader)
        new.class_id = obj.class_id
        new.weight = obj.weight
        new.body_size = obj.body_size
        new.properties = structural_copy(obj.properties)
        return new
    if isinstance(obj, lib.body.ContentBody):
        new = lib.body.ContentBody.__new__(lib.body.ContentBody)
        new.value = obj.value
        return new
    if isinstance(obj, lib.heartbeat.Heartbeat):
        return lib.heartbeat.Heartbeat.__new__(lib.heartbeat.Heartbeat)
    if isinstance(obj, lib.header.ProtocolHeader):
        new = lib.header.ProtocolHeader.__new__(lib.header.ProtocolHeader)
        new.major_version = obj.major_version
        new.minor_version = obj.minor_version
        new.revision = obj.revision
        return new
    if isinstance(obj, dict):
        return {k: structural_copy(v) for k, v in obj.items()}
    if isinstance(obj, list):
        return [structural_copy(v) for v in obj]
    if isinstance(obj, bytearray):
        return bytearray(obj)
    return obj


class RunB:
    def __init__(self, trace, props, pristine, keep_log=False):
        self.trace = trace
        self.props = frozenset(props)
        self.pristine = pristine
        self.h = hashlib.sha256()
        self.log = [] if keep_log else None
        self.n_events = 0
        self.step = 0
        self.seq = 0
        self.fired = {}
        self.probes = {}
        self.oracle_evals = {}
        self.violation = None
        self.records = []
        self.toggle_seqs = []
        self.tz_seqs = []
        self.switch_sigs = []
        self.cells = set()
        self.in_lib = [False] * len(trace['threads'])
        self.cur_kind = [None] * len(trace['threads'])

    # ------------------------------------------------------------ logging
    def ev(self, *item):
        self.n_events += 1
        self.seq += 1
        s = repr(item)
        self.h.update(s.encode('utf-8', 'backslashreplace'))
        if self.log is not None:
            self.log.append(s)
        return self.seq

    def count(self, table, key, n=1):
        table[key] = table.get(key, 0) + n

    def probe(self, key, n=1):
        self.probes[key] = self.probes.get(key, 0) + n

    def oracle(self, key):
        self.oracle_evals[key] = self.oracle_evals.get(key, 0) + 1

    def fail(self, prop, oracle, cls, detail):
        if prop in self.props and self.violation is None:
            self.violation = Violation(prop, oracle, cls, detail)
            self.ev('VIOLATION', prop, oracle, cls)

    # ---------------------------------------------------------- scheduler
    def point(self, code, line):
        """A pre-emption point: the running thread is about to execute a
        pamqp source line (code is None at an operation boundary)."""
        self.step += 1
        tid = self.current
        if code is not None and self.cancels and \
                self.step >= self.cancels[0] and self.in_lib[tid] and \
                not _is_with_line(code, line) and \
                not lib.holds_library_lock():
            self.cancels.pop(0)
            self.count(self.fired, 'cancel')
            self.ev('cancel', tid, os.path.basename(code.co_filename), line)
            raise Cancelled()
        sch = self.schedule
        pick = None
        if self.sched_i < len(sch) and self.step >= sch[self.sched_i][0]:
            pick = sch[self.sched_i][1]
            self.sched_i += 1
        if code is not None and self.novel is not None:
            # additionally switch at every k-th pamqp line this run executes
            # for the first time (lazy init, cache refill, error branches)
            key = (code.co_filename, line)
            if key not in self.novel_seen:
                self.novel_seen.add(key)
                self.novel_n += 1
                if self.novel_n % self.novel['every'] == 0 and pick is None:
                    picks = self.novel['picks']
                    pick = picks[self.novel_i % len(picks)]
                    self.novel_i += 1
        if pick is not None:
            others = [t for t in range(self.nthreads)
                      if t != tid and not self.finished[t]]
            if not others:
                return
            target = others[pick % len(others)]
            where = (os.path.basename(code.co_filename), line) \
                if code is not None else ('op-boundary', 0)
            self.ev('switch', tid, target, where)
            self.switch_sigs.append((tid, target, where))
            if code is not None:
                self.count(self.fired, 'preempt_inside_call')
                self.cells.add('%s|%s' % (
                    self.cur_kind[tid],
                    ','.join(sorted(k for t, k in enumerate(self.cur_kind)
                                    if t != tid and k and self.in_lib[t]))
                    or '-'))
            else:
                self.count(self.fired, 'switch_at_op_boundary')
            self.current = target
            self.sems[target].release()
            self.sems[tid].acquire()

    def lock_yield(self, owner_ident=None):
        """The running thread is waiting for a library lock another (parked)
        thread holds: pass the baton, round robin."""
        tid = self.current
        others = [t for t in range(self.nthreads)
                  if t != tid and not self.finished[t]]
        if not others:
            raise lib.Deadlock('library lock held although no other thread '
                               'is left to release it')
        self.lock_rr = getattr(self, 'lock_rr', 0) + 1
        target = others[self.lock_rr % len(others)]
        for t_, i_ in getattr(self, 'idents', {}).items():
            if i_ == owner_ident and t_ in others:
                target = t_   # the thread that holds the lock
        self.ev('lock-wait', tid, target)
        self.count(self.fired, 'lock_wait_switch')
        self.current = target
        self.sems[target].release()
        self.sems[tid].acquire()

    def worker(self, tid):
        self.sems[tid].acquire()
        if not hasattr(self, 'idents'):
            self.idents = {}
        self.idents[tid] = threading.get_ident()
        try:
            prog = self.trace['threads'][tid]
            for idx, op in enumerate(prog):
                if self.abort:
                    break
                self.point(None, 0)
                self.run_op(tid, idx, op)
        except BaseException as e:  # harness problem inside a thread
            self.thread_errors.append(repr(e))
            import traceback
            self.thread_errors.append(traceback.format_exc()[-800:])
        finally:
            self.finished[tid] = True
            others = [t for t in range(self.nthreads) if not self.finished[t]]
            if others:
                pick = self.exit_picks[self.exit_i % len(self.exit_picks)] \
                    if self.exit_picks else 0
                self.exit_i += 1
                target = others[pick % len(others)]
                self.ev('exit', tid, target)
                self.current = target
                self.sems[target].release()
            else:
                self.ev('exit', tid, -1)
                self.main_sem.release()

    # ----------------------------------------------------------- one op
    def slot(self, ref):
        t, j = ref
        for r in self.records:
            if r.tid == t and r.idx == j:
                return r
        return None

    def run_op(self, tid, idx, op):
        rec = OpRecord()
        rec.tid, rec.idx, rec.op = tid, idx, op
        rec.cancelled = rec.dirty = rec.aborted = False
        rec.live = rec.inp = rec.twin = None
        rec.version = 0
        rec.snap_before = rec.snap_after = None
        rec.ids_before = rec.ids_after = None
        rec.kept = rec.kept_version = None
        rec.switch_at_inv = self.model_switch
        rec.zone = self.zone
        k = op['op']
        self.cur_kind[tid] = k if k not in ('enc', 'dec') else \
            k + ':' + op['fn']
        rec.inv = self.ev('inv', tid, idx, k)
        res = None
        try:
            if k == 'toggle':
                self.in_lib[tid] = True
                v = op['v']
                if v is None:
                    lib.encode.support_deprecated_rabbitmq()
                    v = True
                else:
                    lib.encode.support_deprecated_rabbitmq(v)
                self.in_lib[tid] = False
                self.model_switch = v
                self.toggle_seqs.append((self.seq, tid))
                self.count(self.fired, 'toggle')
                if any(self.in_lib[t] for t in range(self.nthreads)
                       if t != tid):
                    self.count(self.fired, 'toggle_inside_other_call')
                res = ['toggled', v,
                       bool(lib.encode.DEPRECATED_RABBITMQ_SUPPORT) is v]
                self.oracle('switch_state')
                if lib.encode.DEPRECATED_RABBITMQ_SUPPORT is not v:
                    self.fail('C16', 'switch', ['switch-state'],
                              'after support_deprecated_rabbitmq(%r) the '
                              'module switch is %r' % (
                                  op['v'],
                                  lib.encode.DEPRECATED_RABBITMQ_SUPPORT))
                    self.fail('C11', 'switch', ['switch-state'],
                              'after support_deprecated_rabbitmq(%r) the '
                              'module switch is %r' % (
                                  op['v'],
                                  lib.encode.DEPRECATED_RABBITMQ_SUPPORT))
            elif k == 'tz':
                set_tz(op['zone'])
                self.zone = op['zone']
                self.tz_seqs.append((self.seq, tid))
                self.count(self.fired, 'tz_jump')
                if any(self.in_lib[t] for t in range(self.nthreads)
                       if t != tid):
                    self.count(self.fired, 'tz_jump_inside_other_call')
                res = ['tz', op['zone']]
            elif k == 'mutate':
                src = self.slot(op['ref'])
                res = ['mutate', self.mutate(src, op.get('how', 0))]
            elif k == 'keep_part':
                # the caller keeps only a PART of a result (the properties of
                # a decoded header, the arguments table of a method) and
                # drops the rest: the part must stay what it is, whatever the
                # library does when the parent is collected
                src = self.slot(op['ref'])
                res = ['skip']
                if src is not None and src.live is not None:
                    o = src.live
                    part = None
                    if isinstance(o, lib.header.ContentHeader):
                        part = o.properties
                    elif isinstance(o, lib.base.Frame):
                        for s_ in type(o).__slots__:
                            v_ = getattr(o, s_, None)
                            if isinstance(v_, (dict, list)):
                                part = v_
                                break
                    elif isinstance(o, dict):
                        for v_ in o.values():
                            if isinstance(v_, (dict, list)):
                                part = v_
                                break
                    if part is not None:
                        import gc
                        src.version += 1   # (a concurrent marshal_slot of
                        src.dirty = True   #  this object is not judged)
                        src.live = part
                        src.inp = None
                        src.kept = canon_value(part)
                        src.kept_version = src.version
                        self.count(self.fired, 'kept_part_parent_dropped')
                        o = part = v_ = None
                        gc.collect()
                        res = ['kept-part']
            elif k == 'setattr':
                # the caller assigns an attribute of a frame it holds
                src = self.slot(op['ref'])
                res = ['skip']
                if src is not None and src.live is not None:
                    tgt = src.live
                    if isinstance(tgt, lib.header.ContentHeader) and \
                            op.get('on_props'):
                        tgt = tgt.properties
                    if hasattr(tgt, op['name']) or op['name'] in getattr(
                            type(tgt), '__slots__', ()):
                        src.dirty = True
                        src.version += 1
                        self.count(self.fired, 'setattr_on_held_object')
                        try:
                            setattr(tgt, op['name'], from_desc(op['v']))
                            res = ['setattr', op['name']]
                        except Exception as e:
                            res = canon_exc(e)
            elif k == 'marshal_slot':
                src = self.slot(op['ref'])
                if src is None or src.live is None or \
                        src.kept is not None or not isinstance(
                        src.live, (lib.base.Frame,
                                   lib.header.ContentHeader,
                                   lib.body.ContentBody,
                                   lib.heartbeat.Heartbeat,
                                   lib.header.ProtocolHeader)):
                    res = ['skip']
                else:
                    rec.dirty = src.dirty
                    obj = src.live   # (another thread may swap src.live)
                    rec.inp = obj
                    if src.tid != tid:
                        self.count(self.fired, 'shared_object')
                    rec.snap_before = canon_frame(obj)
                    rec.ids_before = identity_snapshot(obj)
                    self.in_lib[tid] = True
                    if src.op['op'] == 'construct':
                        ch = src.op['frame'].get('ch', 0)
                    else:
                        ch = src.res[2] if src.res[0] == 'frame' else 0
                    v0 = src.version
                    t0 = len(self.toggle_seqs)
                    try:
                        out = lib.frame.marshal(obj, ch)
                        res = ['bytes', bytes(out).hex()]
                    except Exception as e:
                        res = canon_exc(e)
                    finally:
                        self.in_lib[tid] = False
                        rec.snap_after = canon_frame(obj)
                        rec.ids_after = identity_snapshot(obj)
                        # a caller-side mutation by another thread may have
                        # landed while this call was pre-empted
                        rec.dirty = rec.dirty or src.dirty
                        # (also when the call is being cancelled)
                        rec.version = 0 if src.version == v0 else 1
                    # twin encode: a fresh object with equal contents must
                    # give the same bytes (no stale cache, no hidden state)
                    twin = structural_copy(obj)
                    self.in_lib[tid] = True
                    try:
                        out2 = lib.frame.marshal(twin, ch)
                        tw = ['bytes', bytes(out2).hex()]
                    except Exception as e:
                        tw = canon_exc(e)
                    finally:
                        self.in_lib[tid] = False
                    if src.version == v0 and len(self.toggle_seqs) == t0:
                        rec.twin = tw
                    rec.version = 0 if src.version == v0 else 1
            else:
                built = True
                try:
                    self.in_lib[tid] = True
                    live = ops.build_input(op)
                    self.in_lib[tid] = False
                except Exception as e:
                    self.in_lib[tid] = False
                    res = canon_exc(e)
                    live = None
                    built = False
                if built:
                    rec.inp = live
                    rec.snap_before = ops.snapshot_input(op, live)
                    if k in ('marshal', 'enc'):
                        rec.ids_before = identity_snapshot(live)
                    self.in_lib[tid] = True
                    try:
                        res, rec.live = ops.apply_op(op, live)
                    finally:
                        self.in_lib[tid] = False
                        rec.snap_after = ops.snapshot_input(op, live)
                        if k in ('marshal', 'enc'):
                            rec.ids_after = identity_snapshot(live)
        except Cancelled:
            self.in_lib[tid] = False
            rec.cancelled = True
            res = ['cancelled']
            if rec.inp is not None and rec.snap_after is None and \
                    k in ('marshal', 'enc', 'construct'):
                rec.snap_after = ops.snapshot_input(op, rec.inp)
        except BaseException as e:
            self.in_lib[tid] = False
            if type(e).__name__ == 'StepBudgetExceeded':
                rec.aborted = True
                self.abort = True
                self.probe('run_aborted_by_step_budget')
                res = ['aborted']
            elif isinstance(e, lib.Deadlock):
                # the call would block for ever: that is its result
                self.probe('library_lock_deadlock')
                res = ['EXC', 'sim.lib.Deadlock', str(e)]
            else:
                raise
        rec.res = res
        self.cur_kind[tid] = None
        rec.ret = self.ev('ret', tid, idx, self.res_digest(res))
        self.records.append(rec)

    @staticmethod
    def res_digest(res):
        s = json.dumps(res)
        if len(s) > 120:
            return hashlib.sha1(s.encode()).hexdigest()
        return s

    @staticmethod
    def _edit_dict(d, how):
        """In-place edits of a table a caller holds, through the different
        doors a dict has (a dict subclass that tracks changes in __setitem__
        sees only some of them)."""
        h = how % 8
        if h == 0:
            d['~mut'] = 1
            return '[~mut]=1'
        if h == 1:
            d.update({'!first': 1})          # sorts before every other key
            return 'update(!first)'
        if h == 2:
            d.setdefault('!0', 'x')
            return 'setdefault(!0)'
        if h == 3:
            d |= {'0mid': True, '~z': None}
            return '|=(0mid,~z)'
        if h == 4 and d:
            k = next(iter(d))                # same contents, new order
            v = d.pop(k)
            d[k] = v
            return 'pop+reinsert(first key)'
        if h == 5 and len(d) > 1:
            items = list(d.items())
            d.clear()
            d.update(reversed(items))        # same contents, reversed order
            return 'clear+update(reversed)'
        if h == 6:
            for k, v in d.items():
                if isinstance(v, dict):
                    v.update({'!in': 2})
                    return 'nested dict update'
                if isinstance(v, list):
                    v.insert(0, {'b': 1, 'a': 2})
                    return 'nested list insert'
            d.update([('!pair', 0)])
            return 'update(pairs)'
        d['~mut'] = 1
        d.update({'!first': 1})
        return '[~mut]=1+update(!first)'

    @staticmethod
    def _edit_list(lst, how):
        h = how % 4
        if h == 0:
            lst.append('~mut')
            return 'append'
        if h == 1:
            lst.insert(0, '!mut')
            return 'insert(0)'
        if h == 2:
            lst += [{'z': 1, 'a': 2}]
            return '+=[table]'
        lst.reverse()
        return 'reverse'

    def mutate(self, src, how=0):
        """Caller-side change of a result the caller still holds."""
        if src is None or src.live is None:
            return 'skip'
        src.dirty = True
        src.version += 1
        o = src.live
        self.count(self.fired, 'mutate_result')
        if isinstance(o, lib.header.ContentHeader):
            p = o.properties
            if isinstance(p.headers, dict):
                return 'header.properties.headers ' + self._edit_dict(
                    p.headers, how)
            p.app_id = 'mutated'
            p.headers = {'~mut': 2}
            return 'header.properties.app_id/headers'
        if isinstance(o, lib.base.Frame):
            for s in type(o).__slots__:
                v = getattr(o, s, None)
                if isinstance(v, dict):
                    return 'frame.%s %s' % (s, self._edit_dict(v, how))
                if isinstance(v, list):
                    return 'frame.%s %s' % (s, self._edit_list(v, how))
            if type(o).__slots__:
                s = type(o).__slots__[0]
                try:
                    setattr(o, s, getattr(o, s))
                except Exception:
                    pass
            return 'frame.noop'
        if isinstance(o, dict):
            return 'dict ' + self._edit_dict(o, how)
        if isinstance(o, list):
            return 'list ' + self._edit_list(o, how)
        if isinstance(o, bytearray):
            if how % 2:
                o[0:0] = b'~'
                return 'bytearray[0:0]='
            o.extend(b'~')
            return 'bytearray.extend'
        return 'skip'

    # ------------------------------------------------------------ the run
    def execute(self):
        from sim import core
        core.apply_logging_config(self.trace)
        install()
        METER.install()
        tr = self.trace
        self.nthreads = n = len(tr['threads'])
        self.schedule = [list(x) for x in tr.get('schedule', [])]
        self.sched_i = 0
        self.cancels = sorted(tr.get('cancels', []))
        self.novel = tr.get('novel') or None
        self.novel_seen = set()
        self.novel_n = 0
        self.novel_i = 0
        self.exit_picks = tr.get('exit_picks', [0])
        self.exit_i = 0
        self.finished = [False] * n
        self.thread_errors = []
        self.abort = False
        self.sems = [threading.Semaphore(0) for _ in range(n)]
        self.main_sem = threading.Semaphore(0)
        self.zone = tr.get('tz0', 'UTC')
        set_tz(self.zone)
        self.model_switch = bool(tr.get('switch0', False))
        lib.encode.support_deprecated_rabbitmq(self.model_switch)
        const_before = constants_snapshot()
        self.globals_before = process_globals_snapshot()
        self.ev('start', n, self.zone, self.model_switch,
                [len(p) for p in tr['threads']])
        threads = [threading.Thread(target=self.worker, args=(t,),
                                    name='caller-%d' % t, daemon=True)
                   for t in range(n)]
        for t in threads:
            t.start()
        METER.count = 0
        METER.budget = RUN_STEP_BUDGET
        METER.tripped = False
        METER.where = None
        METER.active = True
        CURRENT[0] = self
        lib.LOCK_YIELD[0] = self.lock_yield
        first = tr.get('first', 0) % n
        self.current = first
        self.sems[first].release()
        self.main_sem.acquire()
        CURRENT[0] = None
        lib.LOCK_YIELD[0] = None
        METER.active = False
        steps = METER.count
        for t in threads:
            t.join(5)
        if self.thread_errors:
            raise RuntimeError('harness: thread error: %s' %
                               ' | '.join(self.thread_errors))
        try:
            if not self.abort:
                self.check_history(const_before)
        finally:
            lib.encode.support_deprecated_rabbitmq(False)
            set_tz('UTC')
        nontrivial = bool(self.oracle_evals) and (
            self.fired.get('preempt_inside_call', 0) > 0 or
            self.fired.get('toggle', 0) > 0 or
            self.fired.get('tz_jump', 0) > 0 or
            self.fired.get('cancel', 0) > 0 or
            self.fired.get('mutate_result', 0) > 0 or
            self.fired.get('shared_object', 0) > 0 or
            len(self.records) > 1)
        sig = hashlib.sha1(repr(self.switch_sigs).encode()).hexdigest()[:16]
        return {
            'digest': self.h.hexdigest(),
            'violation': self.violation,
            'fired': self.fired,
            'probes': self.probes,
            'oracles': self.oracle_evals,
            'events': self.n_events,
            'calls': len(self.records),
            'steps': steps,
            'nontrivial': nontrivial,
            'extra': {'schedule_signatures': {sig} if self.switch_sigs
                      else set(),
                      'coverage_cells': set(self.cells),
                      'line_events': self.step},
            'log': self.log,
        }

    # ------------------------------------------------------------ oracles
    def overlapped(self, rec, seqs):
        return any(rec.inv < s < rec.ret and t != rec.tid for s, t in seqs)

    def expected_for(self, rec):
        """(op key of the self-contained op whose pristine result this
        record must equal) or None."""
        op = rec.op
        k = op['op']
        if k in ('marshal', 'construct', 'unmarshal', 'enc', 'dec',
                 'remarshal'):
            if 'family' in op:
                # permuted copy: must equal the base insertion order's bytes
                return op['family']
            return ops.op_key(op)
        if k == 'marshal_slot':
            src = self.slot(op['ref'])
            if src is None or rec.res == ['skip']:
                return None
            so = src.op
            if so['op'] == 'construct':
                return ops.op_key({'op': 'marshal', 'frame': so['frame']})
            if so['op'] == 'unmarshal':
                return ops.op_key({'op': 'remarshal', 'b': so['b']})
            return None
        return None

    def check_history(self, const_before):
        props = self.props
        P = self.pristine
        for rec in self.records:
            k = rec.op['op']
            if rec.cancelled:
                self.probe('cancelled_ops')
            # ---- C12 (2): encode leaves its input exactly as it was
            if 'C12' in props and rec.snap_before is not None and \
                    not rec.version and k in ('marshal', 'enc',
                                              'marshal_slot'):
                self.oracle('C12.input_unchanged')
                if rec.snap_after != rec.snap_before:
                    self.fail('C12', 'mutation',
                              ['input-mutated', k if k != 'enc' else
                               'enc:' + rec.op['fn']],
                              'encoding changed its input (thread %d op %d '
                              '%s%s): before %s after %s' % (
                                  rec.tid, rec.idx, k,
                                  ' [cancelled mid-way]' if rec.cancelled
                                  else '',
                                  json.dumps(rec.snap_before)[:300],
                                  json.dumps(rec.snap_after)[:300]))
                elif rec.ids_before is not None and \
                        rec.ids_after is not None and \
                        not rec.cancelled and \
                        rec.ids_after != rec.ids_before:
                    changed = [p_ for (p_, a), (q_, b) in
                               zip(rec.ids_before, rec.ids_after)
                               if p_ == q_ and a != b][:3]
                    self.fail('C12', 'mutation',
                              ['input-mutated', 'identity',
                               k if k != 'enc' else 'enc:' + rec.op['fn']],
                              'encoding replaced objects inside its input '
                              '(thread %d op %d %s): the contents compare '
                              'equal, but the caller\'s structure now '
                              'holds other table/list objects at %r' % (
                                  rec.tid, rec.idx, k, changed))
            if rec.twin is not None and not rec.cancelled and \
                    not rec.aborted and rec.res is not None:
                self.oracle('twin_equal')
                got_t = json.loads(json.dumps(rec.res))
                if got_t != rec.twin:
                    what = ('thread %d op %d: marshalling the held object '
                            'gave %s but a fresh object with equal contents '
                            'gives %s%s' % (
                                rec.tid, rec.idx, json.dumps(got_t)[:300],
                                json.dumps(rec.twin)[:300],
                                ' (after a caller-side in-place edit)'
                                if rec.dirty else ''))
                    self.fail('C12', 'twin', ['equal-contents-differ',
                                              'marshal_slot'], what)
                    self.fail('C16', 'twin', ['hidden-state',
                                              'marshal_slot'], what)
            if rec.cancelled or rec.aborted or rec.dirty:
                continue
            key = self.expected_for(rec)
            got = json.loads(json.dumps(rec.res))
            exp = P.get(key) if key is not None else None
            if exp is None:
                if key is not None:
                    self.probe('no_pristine_for_op')
                self.model_checks(rec, got)
                continue
            sw = 'T' if rec.switch_at_inv else 'F'
            relaxed = self.overlapped(rec, self.toggle_seqs)
            for prop in ('C16', 'C12', 'C15', 'C11'):
                if prop in props:
                    self.oracle(prop + '.fresh_equal')
            if 'family' in rec.op:
                self.probe('permuted_copy_compared')
            if got == exp[sw]:
                pass
            elif relaxed and got == exp['T' if sw == 'F' else 'F']:
                self.probe('relaxed_other_switch_value')
            elif relaxed and self.mixture_ok(rec, got, exp):
                self.probe('relaxed_mixture')
            else:
                what = ('thread %d op %d %s under zone %s, switch %s: got %s '
                        'but a fresh interpreter gives %s' % (
                            rec.tid, rec.idx, self.describe(rec.op),
                            rec.zone, sw, json.dumps(got)[:400],
                            json.dumps(exp[sw])[:400]))
                kk = k if k not in ('enc', 'dec') else k + ':' + rec.op['fn']
                zone_involved = rec.zone != 'UTC' or any(
                    s < rec.ret for s, _ in self.tz_seqs)
                if zone_involved:
                    self.fail('C15', 'zone', ['zone-dependent', kk], what)
                self.fail('C16', 'fresh', ['history-dependent', kk], what)
                self.fail('C12', 'fresh', ['nondeterministic', kk], what)
                self.fail('C11', 'fresh', ['history-dependent', kk], what)
            self.model_checks(rec, got)
        if 'C16' in props:
            for rec in self.records:
                if rec.kept is not None and rec.live is not None and \
                        rec.version == rec.kept_version:
                    self.oracle('C16.kept_part_unchanged')
                    now = canon_value(rec.live)
                    if now != rec.kept:
                        self.fail('C16', 'kept', ['kept-part-changed'],
                                  'the caller kept a part of the result of '
                                  'thread %d op %d and dropped the rest; '
                                  'later library calls changed it: was %s, '
                                  'is %s' % (rec.tid, rec.idx,
                                             json.dumps(rec.kept)[:300],
                                             json.dumps(now)[:300]))
        # ---- C16 (2): no shared mutable state between separate results
        if 'C16' in props:
            self.oracle('C16.no_sharing')
            seen = {}
            cls_ids = class_level_ids()
            for rec in self.records:
                if rec.live is None or rec.op['op'] == 'marshal_slot':
                    continue
                members = []
                _member(rec.live, 't%d.op%d' % (rec.tid, rec.idx), members,
                        0)
                own_inp = []
                if rec.inp is not None:
                    inp = rec.inp[0] if isinstance(rec.inp, tuple) \
                        else rec.inp
                    _member(inp, 'in', own_inp, 0)
                own = {i for i, _ in own_inp}
                for i, path in members:
                    if i in cls_ids:
                        self.fail('C16', 'sharing',
                                  ['aliases-class-object'],
                                  'result member %s is the class-level '
                                  'object %s' % (path, cls_ids[i]))
                    if i in seen and seen[i][0] != (rec.tid, rec.idx) \
                            and i not in own:
                        self.fail('C16', 'sharing', ['shared-member'],
                                  'results of separate calls share a '
                                  'mutable object: %s is %s' % (
                                      path, seen[i][1]))
                    seen.setdefault(i, ((rec.tid, rec.idx), path))
        # ---- C16 (3): class-level constants and the switch
        if 'C16' in props or 'C11' in props:
            self.oracle('constants_unchanged')
            after = constants_snapshot()
            if after != const_before or (
                    self.pristine.get('__constants__') and
                    after != self.pristine['__constants__']):
                self.fail('C16', 'constants', ['constants-changed'],
                          'a class-level constant (valid_responses, flags, '
                          'Heartbeat.value, a mapping) changed during the '
                          'run')
            if 'C16' in props:
                g_after = process_globals_snapshot()
                g_before = getattr(self, 'globals_before', g_after)
                diff = sorted(k for k in g_after if g_after[k] != g_before[k])
                if diff:
                    self.fail('C16', 'constants', ['process-globals-changed',
                                                   diff[0]],
                              'the run left interpreter-wide state changed: '
                              '%s (before %r, after %r)' % (
                                  ', '.join(diff), g_before[diff[0]],
                                  g_after[diff[0]]))
            if bool(lib.encode.DEPRECATED_RABBITMQ_SUPPORT) != \
                    self.model_switch:
                self.fail('C16', 'switch', ['switch-state'],
                          'legacy switch is %r, the last toggle set %r' % (
                              lib.encode.DEPRECATED_RABBITMQ_SUPPORT,
                              self.model_switch))
                self.fail('C11', 'switch', ['switch-state'],
                          'legacy switch is %r, the last toggle set %r' % (
                              lib.encode.DEPRECATED_RABBITMQ_SUPPORT,
                              self.model_switch))

    def model_checks(self, rec, got):
        if rec.op['op'] not in ('marshal', 'enc', 'dec', 'unmarshal',
                                'construct', 'marshal_slot'):
            return
        if 'C11' in self.props:
            models.check_c11(self, rec, got)
        if 'C12' in self.props:
            models.check_c12_order(self, rec, got)
        if 'C15' in self.props:
            models.check_c15(self, rec, got)

    def mixture_ok(self, rec, got, exp):
        """Narrow relaxation: an encode that overlapped a toggle may mix
        both ladders; its output must still decode to the pristine value."""
        try:
            if got[0] != 'bytes' or exp['F'][0] != 'bytes':
                return False
            k = rec.op['op']
            if k == 'enc' and rec.op['fn'] in ('field_table', 'field_array'):
                f = getattr(lib.decode, rec.op['fn'])
                a = f(bytes.fromhex(got[1]))
                b = f(bytes.fromhex(exp['F'][1]))
                return canon_value(a[1]) == canon_value(b[1])
            if k in ('marshal', 'marshal_slot'):
                a = lib.frame.unmarshal(bytes.fromhex(got[1]))
                b = lib.frame.unmarshal(bytes.fromhex(exp['F'][1]))
                return a[1] == b[1] and canon_frame(a[2]) == canon_frame(b[2])
        except Exception:
            return False
        return False

    @staticmethod
    def describe(op):
        k = op['op']
        if k in ('marshal', 'construct'):
            f = op['frame']
            return '%s(%s)' % (k, f.get('cls') or f['k'])
        if k in ('enc', 'dec'):
            d = json.dumps(op.get('v', op.get('b')))
            return '%s.%s(%s)' % ('encode' if k == 'enc' else 'decode',
                                  op['fn'], d[:200])
        if k == 'unmarshal':
            return 'unmarshal(%s)' % op['b'][:80]
        return k


def execute(trace, props, pristine, keep_log=False):
    return RunB(trace, props, pristine, keep_log).execute()
