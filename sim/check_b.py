"""World B checks: C11, C12, C15, C16 (spec module for sim.core)."""
import copy
import json
import os
import subprocess
import sys

from sim import core, gen_b, ops, world_b
from sim.check_a import _ddmin_list, _simpler_frames, _simpler_values

PROPS = {'C11': {'C11'}, 'C12': {'C12'}, 'C15': {'C15'}, 'C16': {'C16'}}
LEVEL = {'C11': 'exploration', 'C12': 'exploration', 'C15': 'exploration',
         'C16': 'exploration'}

PLANS = {
    'C16': {'quick': [('seq', 2500), ('threads', 2500),
                      ('threads_toggle', 1500), ('long', 250),
                      ('long_faulty', 150), ('threads_mirror', 1200),
                      ('capacity', 16)],
            'thorough': [('seq', 24000), ('threads', 28000),
                         ('threads_toggle', 20000), ('long', 2400),
                         ('long_faulty', 1600), ('threads_mirror', 16000),
                         ('capacity', 200)]},
    'C12': {'quick': [('seq', 2500), ('threads', 2000),
                      ('threads_mirror', 1500), ('capacity', 12)],
            'thorough': [('seq', 24000), ('threads', 24000),
                         ('threads_mirror', 16000), ('capacity', 160)]},
    'C15': {'quick': [('seq', 3000), ('threads', 2000), ('boot', 48),
                      ('threads_mirror', 800)],
            'thorough': [('seq', 32000), ('threads', 24000), ('boot', 240),
                         ('threads_mirror', 8000)]},
    'C11': {'quick': [('seq', 3000), ('threads_toggle', 1500),
                      ('sweep', 282), ('threads_mirror', 800)],
            'thorough': [('seq', 32000), ('threads_toggle', 20000),
                         ('sweep', 282), ('threads_mirror', 8000)]},
}
CAT_SIZE = {'quick': 1100, 'thorough': 3500}

CATALOGUE = {}
PRISTINE = {}


def _prepare_job(check, tier):
    """Runs in a forked child: catalogue generation calls the library."""
    seed = core.base_seed()
    constants = world_b.constants_snapshot()   # before any library call
    cat, twins = gen_b.build_catalogue(check, seed, CAT_SIZE[tier])
    uniq = {}
    for op in cat + twins:
        if 'family' in op:
            continue
        uniq.setdefault(ops.op_key(op), gen_b.op_core(op))
    from sim.pristine import Pristine
    P = Pristine(min(16, os.cpu_count() or 4))
    try:
        res = P.results(list(uniq.values()))
    finally:
        P.close()
    res['__constants__'] = constants
    return cat, res


def prepare(check, tier, plan):
    """Build the catalogue and fetch the pristine results once, before the
    pool is forked - in a child, so that this process (the ancestor of every
    run) never calls the library itself."""
    cat, res = core.in_child(_prepare_job, check, tier)
    CATALOGUE[check] = cat
    PRISTINE.clear()
    PRISTINE.update(res)
    return len(cat), len(res)


_CLIENT = [None]


def _needed(trace):
    need = {}
    for prog in trace.get('threads', []) + [trace.get('ops', [])]:
        for op in prog:
            k = op.get('op')
            if k in ('marshal', 'construct', 'unmarshal', 'enc', 'dec',
                     'remarshal'):
                if 'family' in op:
                    need.setdefault(op['family'], json.loads(op['family']))
                    continue
                need.setdefault(ops.op_key(op), gen_b.op_core(op))
                if k == 'construct':
                    t = {'op': 'marshal', 'frame': op['frame']}
                    need.setdefault(ops.op_key(t), t)
                if k == 'unmarshal':
                    t = {'op': 'remarshal', 'b': op['b']}
                    need.setdefault(ops.op_key(t), t)
    return need


def ensure_pristine(trace):
    """Fetch pristine results for ops of a trace that are not known yet
    (replay and shrinking).  Talks to the pristine server processes only;
    never calls the library in this process."""
    if trace.get('population') == 'sweep':
        return
    missing = {k: v for k, v in _needed(trace).items() if k not in PRISTINE}
    if missing:
        from sim.pristine import Pristine
        if _CLIENT[0] is None:
            import atexit
            _CLIENT[0] = Pristine(4)
            atexit.register(_CLIENT[0].close)
        PRISTINE.update(_CLIENT[0].results(list(missing.values())))


def pre_execute(check, trace):
    if trace.get('world') != 'A':
        ensure_pristine(trace)


def generate(check, population, rng, tier):
    if population == 'capacity':
        # World A's fork-and-explore population, with the producer side
        # (construct + marshal of every frame, again, inside the explored
        # windows) and the streamed decodes judged for this property
        from sim import gen_a
        return gen_a.gen_trace(rng, check, 'capacity', tier)
    if check not in CATALOGUE:
        prepare(check, tier, None)
    if population == 'sweep':
        return gen_b.gen_sweep_trace(rng, getattr(rng, 'run_index', 0))
    if population == 'boot':
        cat = CATALOGUE[check]
        return {'world': 'B', 'check': check, 'population': 'boot',
                'boot': rng.choice(gen_b.ZONES),
                'ops': [rng.choice(cat) for _ in range(40)]}
    return gen_b.gen_trace(rng, check, population, tier, CATALOGUE[check])


def execute(check, trace, keep_log=False):
    if trace.get('world') == 'A':
        from sim import check_a
        return check_a.execute(check, trace, keep_log)
    # (the integer sweep is judged by the ladder model alone)
    ensure_pristine(trace)
    if trace.get('population') == 'boot':
        return execute_boot(check, trace)
    return world_b.execute(trace, PROPS[check], PRISTINE, keep_log)


# ---- C15 'boot' population: interpreters *started* under each zone ---------

BOOT_CHILD = r'''
import sys, json, logging
sys.path.insert(0, %r)
logging.disable(logging.CRITICAL)
from sim import ops
req = json.loads(sys.stdin.read())
out = []
for op in req["ops"]:
    res, _, _ = ops.eval_self_contained(op)
    out.append(res)
sys.stdout.write(json.dumps(out))
'''


def execute_boot(check, trace):
    import hashlib
    from sim import models
    env = dict(os.environ, TZ=trace['boot'], PYTHONHASHSEED='0')
    p = subprocess.run([sys.executable, '-c', BOOT_CHILD % core.VERIF],
                       input=json.dumps({'ops': [gen_b.op_core(o) for o in
                                                 trace['ops']]}),
                       capture_output=True, text=True, env=env,
                       cwd=core.VERIF, timeout=120)
    if p.returncode != 0:
        raise RuntimeError('boot child failed: %s' % p.stderr[-600:])
    results = json.loads(p.stdout)
    h = hashlib.sha256()
    violation = None
    oracles = {'C15.fresh_equal': 0}
    shim = _BootShim(trace['boot'])
    for op, got in zip(trace['ops'], results):
        h.update(json.dumps(got).encode())
        exp = PRISTINE.get(ops.op_key(op))
        if exp is None:
            continue
        oracles['C15.fresh_equal'] += 1
        if got != exp['F'] and violation is None:
            kk = op['op'] if op['op'] not in ('enc', 'dec') else \
                op['op'] + ':' + op['fn']
            violation = world_b.Violation(
                'C15', 'zone', ['zone-dependent', kk],
                'interpreter started under TZ=%s: %s gave %s, under UTC %s'
                % (trace['boot'], world_b.RunB.describe(op),
                   json.dumps(got)[:300], json.dumps(exp['F'])[:300]))
        rec = _BootRec(op, trace['boot'])
        models.check_c15(shim, rec, got)
        if shim.violation is not None and violation is None:
            violation = shim.violation
    oracles.update(shim.oracle_evals)
    return {'digest': h.hexdigest(), 'violation': violation,
            'fired': {'interpreter_started_under_zone': 1,
                      'zone:' + trace['boot']: 1},
            'probes': {}, 'oracles': oracles, 'events': len(results),
            'calls': len(results), 'steps': 0, 'nontrivial': True,
            'extra': {}, 'log': None}


class _BootRec:
    def __init__(self, op, zone):
        self.op = op
        self.zone = zone


class _BootShim:
    def __init__(self, zone):
        self.violation = None
        self.oracle_evals = {}
        self.zone = zone

    def oracle(self, k):
        self.oracle_evals[k] = self.oracle_evals.get(k, 0) + 1

    def probe(self, k, n=1):
        pass

    def fail(self, prop, oracle, cls, detail):
        if self.violation is None:
            self.violation = world_b.Violation(prop, oracle, cls, detail)


def sample_view(trace, res):
    if trace.get('world') == 'A':
        from sim import check_a
        return check_a.sample_view(trace, res)
    if trace.get('population') == 'boot':
        return {'population': 'boot', 'zone_at_interpreter_start':
                trace['boot'],
                'ops': [world_b.RunB.describe(o) for o in trace['ops'][:10]]}
    return {
        'population': trace.get('population'),
        'tz0': trace.get('tz0'), 'switch0': trace.get('switch0'),
        'policy': trace.get('policy'),
        'threads': [[_op_label(o) for o in p[:14]] +
                    (['...(%d more)' % (len(p) - 14)] if len(p) > 14 else [])
                    for p in trace['threads']],
        'schedule': trace.get('schedule', [])[:12],
        'cancels': trace.get('cancels'),
        'fired': res.get('fired'), 'oracle_evaluations': res.get('oracles'),
        'digest': res.get('digest'),
    }


def _op_label(o):
    k = o['op']
    if k == 'toggle':
        return 'toggle(%r)' % (o['v'],)
    if k == 'tz':
        return 'tz_jump(%s)' % o['zone']
    if k in ('mutate', 'marshal_slot'):
        return '%s(thread %d op %d)' % (k, o['ref'][0], o['ref'][1])
    return world_b.RunB.describe(o)[:90] + \
        (' [permuted copy]' if 'family' in o else '')


# ------------------------------------------------------------------ shrinking

def _drop_ops(trace, t, drop):
    """Remove ops `drop` (indices) from thread t; fix references."""
    drop = set(drop)
    tr = dict(trace)
    threads = [list(p) for p in trace['threads']]
    old = threads[t]
    newidx = {}
    j = 0
    for i in range(len(old)):
        if i not in drop:
            newidx[i] = j
            j += 1
    threads[t] = [op for i, op in enumerate(old) if i not in drop]
    for tt in range(len(threads)):
        fixed = []
        for op in threads[tt]:
            if 'ref' in op and op['ref'][0] == t:
                if op['ref'][1] not in newidx:
                    continue
                op = dict(op, ref=[t, newidx[op['ref'][1]]])
            fixed.append(op)
        threads[tt] = fixed
    tr['threads'] = threads
    return tr


def _drop_thread(trace, t):
    tr = dict(trace)
    threads = []
    for tt, p in enumerate(trace['threads']):
        if tt == t:
            continue
        q = []
        for op in p:
            if 'ref' in op:
                if op['ref'][0] == t:
                    continue
                if op['ref'][0] > t:
                    op = dict(op, ref=[op['ref'][0] - 1, op['ref'][1]])
            q.append(op)
        threads.append(q)
    tr['threads'] = threads
    return tr


def shrink(check, trace, cls, vbuf=None, max_execs=1500, max_wall=None):
    if trace.get('world') == 'A':
        from sim import check_a
        return check_a.shrink(check, trace, cls, None, max_execs, max_wall)
    import time
    max_wall = max_wall or float(os.environ.get('VERIF_SHRINK_S', '60'))
    state = {'n': 0, 't0': time.time()}

    def bad(t):
        if state['n'] >= max_execs or \
                time.time() - state['t0'] > max_wall:
            return False
        state['n'] += 1
        try:
            res = core.isolated_execute('sim.check_b', check, t)
        except Exception:
            return False
        v = res['violation']
        return v is not None and v.cls == cls

    cur = copy.deepcopy(trace)
    if not bad(cur):
        return cur, state['n'], False
    if cur.get('population') == 'boot':
        def test_ops(sub):
            return bool(sub) and bad(dict(cur, ops=sub))
        cur = dict(cur, ops=_ddmin_list(cur['ops'], test_ops))
        return cur, state['n'], True
    progress = True
    while progress and state['n'] < max_execs and \
            time.time() - state['t0'] < max_wall:
        progress = False
        # threads
        t = 0
        while len(cur['threads']) > 1 and t < len(cur['threads']):
            cand = _drop_thread(cur, t)
            if bad(cand):
                cur = cand
                progress = True
            else:
                t += 1
        # ops per thread
        for t in range(len(cur['threads'])):
            idx = list(range(len(cur['threads'][t])))
            if not idx:
                continue

            def test_keep(keep, t=t, idx=idx):
                return bad(_drop_ops(cur, t, set(idx) - set(keep)))
            keep = _ddmin_list(idx, test_keep) if not test_keep([]) else []
            if len(keep) < len(idx):
                cur = _drop_ops(cur, t, set(idx) - set(keep))
                progress = True
        # schedule, cancels
        for key in ('cancels', 'schedule'):
            items = cur.get(key, [])
            if not items:
                continue

            def test_items(sub, key=key):
                return bad(dict(cur, **{key: sub}))
            sub = [] if test_items([]) else _ddmin_list(items, test_items)
            if len(sub) < len(items):
                cur = dict(cur, **{key: sub})
                progress = True
        for key, simple in (('tz0', 'UTC'), ('switch0', False),
                            ('first', 0), ('exit_picks', [0])):
            if cur.get(key) != simple:
                cand = dict(cur, **{key: simple})
                if bad(cand):
                    cur = cand
                    progress = True
        # simplify ops
        for t in range(len(cur['threads'])):
            for i in range(len(cur['threads'][t])):
                op = cur['threads'][t][i]
                for simpler in _simpler_ops(op):
                    threads = [list(p) for p in cur['threads']]
                    threads[t][i] = simpler
                    cand = dict(cur, threads=threads)
                    if bad(cand):
                        cur = cand
                        op = simpler
                        progress = True
    return cur, state['n'], True


def _simpler_ops(op):
    k = op['op']
    if 'family' in op:
        return
    if k in ('marshal', 'construct'):
        for f in _simpler_frames(op['frame']):
            yield dict(op, frame=f)
    elif k == 'enc':
        for v in _simpler_values(op['v']):
            yield dict(op, v=v)
    elif k == 'tz' and op['zone'] != 'UTC':
        yield dict(op, zone='UTC')


_NT = (' A run is non-trivial if a scheduler or ambient-state event actually '
       'happened (a pre-emption inside a library call, a toggle, a tz jump, '
       'a cancel, a caller-side mutation, an object shared across threads, '
       'or more than one operation in the history) AND at least one oracle '
       'was evaluated; distinct = distinct SHA-256 digests of the run event '
       'log (every invoke/return with result digest, switch, toggle, tz jump '
       'and cancel).')
RULE = {
    'C16': 'Seeded World B runs: 1-4 real caller threads execute programs '
           'of closed operations (construct with defaults, marshal, '
           'unmarshal valid and damaged bytes, field encoders/decoders, '
           'caller-side mutation of held results, marshalling a held/shared '
           'object, toggles of the legacy switch, cancel faults) drawn from '
           'a seeded catalogue, under a baton-passing scheduler that '
           'pre-empts at pamqp source lines (coin-flip or PCT policy). '
           'Every result is compared with the result the same call gives '
           'in a pristine forked interpreter; identities of mutable members '
           'across results and class-level constants are checked.' + _NT,
    'C12': 'World B runs over a catalogue of encode operations with '
           'permuted-insertion-order copies (nested tables inside arrays, '
           'keys longer than 128 characters), repeated and shared across '
           'threads, with cancel faults inside encodes; zone and legacy '
           'switch drawn per run. Oracles: bytes equal the pristine result '
           'of the base insertion order, deep type-tagged input snapshot '
           'identical before and after every encode (also cancelled ones), '
           'keys ascending in every emitted table (independent walker); '
           'digests of a sample of runs compared across PYTHONHASHSEED '
           'values in fresh interpreters.' + _NT,
    'C15': 'World B runs with the TZ seam (os.environ[TZ] + time.tzset): '
           'tz jumps between and inside timestamp encodes/decodes '
           '(threads), 13 zones incl. half-hour, +14, -11, both-hemisphere '
           'DST and POSIX strings, instants biased to offset transitions; '
           'plus interpreters started under each zone. Oracles: encoded '
           'seconds equal civil-date arithmetic (no time/calendar call), '
           'decoded values are UTC-aware and denote the encoded second, '
           'all results equal the pristine UTC result.' + _NT,
    'C11': 'World B runs interleaving toggles of the legacy switch '
           '(True/False/argument-less) with table_integer, '
           'encode_table_value, nested field_table/field_array and '
           'frame.marshal of methods/headers carrying integer tables, '
           'sequentially and with a toggling thread against encoding '
           'threads; every emitted integer tag/width is compared with an '
           'independent 6-row ladder model for the switch state in force '
           '(either state if a toggle overlapped the call); the sweep '
           'population enumerates every integer in [-70000, 70000] in both '
           'states at top level and nested.' + _NT,
}
_POPS_B = (' Also: every run executes in a freshly forked child of a '
           'library-pristine process; programs repeat recent calls, pair '
           'equal-but-different values (0.0/-0.0, Decimal exponents, '
           '1/True/1.0, both folds of a repeated hour) in one history, edit '
           'and re-marshal held objects (mutate, setattr, twin-encode '
           'oracle); populations long (150-400 ops) and long_faulty '
           '(300-700 ops, half of them decodes of damaged bytes, with the '
           'same failing decode hammered 40-200 times); schedules are '
           'explicit step lists (coin-flip or PCT) plus the novel-line '
           'policy.')
for _k in list(RULE):
    RULE[_k] = RULE[_k] + _POPS_B
_COMMON = [
    'sampling, not proof: a clean batch is evidence over the explored seeds '
    'and schedules',
    'pre-emption granularity is one pamqp source line (sys.monitoring LINE '
    'events); races between bytecodes of one line are not explored',
    'the pristine reference is pamqp itself evaluated once per operation in '
    'a forked interpreter that never ran another library call, under TZ=UTC',
]
ASSUMPTIONS = {
    'C16': _COMMON + ['an operation whose invoke-return interval contains a '
                      'toggle by another thread may match either switch '
                      'value (narrow relaxation, toggle populations only)'],
    'C12': _COMMON,
    'C15': _COMMON + ['zones come from the system zoneinfo database plus '
                      'POSIX TZ strings'],
    'C11': _COMMON + ['the ladder model is the documented order b, s, u, I, '
                      'i, l with legacy = signed tags only'],
}


def extra_coverage(check, tier, agg):
    out = {'catalogue_ops': len(CATALOGUE.get(check, ())),
           'pristine_results': max(0, len(PRISTINE) - 1),
           'distinct_schedule_signatures': len(
               agg.extra.get('schedule_signatures', ())),
           'coverage_cells_preempted_kind|inflight_kinds': len(
               agg.extra.get('coverage_cells', ()))}
    if check == 'C11':
        out['integer_sweep'] = {
            'range': [-70000, 70000], 'states': ['full', 'legacy'],
            'blocks_of_1000': 141,
            'note': 'enumeration, reported separately from the simulated '
                    'toggle histories'}
    return out
