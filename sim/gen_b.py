"""Seeded generation for World B: operation catalogues and run traces."""
import datetime
import json
import random
import time

from sim import gen, gen_a, ops, lib
from sim.values import to_desc, UTC

ZONES = ['UTC', 'America/New_York', 'America/Sao_Paulo', 'Europe/London',
         'Asia/Kolkata', 'Asia/Kathmandu', 'Australia/Lord_Howe',
         'Pacific/Kiritimati', 'Pacific/Pago_Pago', 'Africa/Casablanca',
         'EST5EDT,M3.2.0,M11.1.0', 'XXX-14', 'YYY+11:30']

# instants at which one of the zones above changes its UTC offset
TRANSITIONS = [
    1710054000,  # 2024-03-10 07:00Z New York spring forward
    1730613600,  # 2024-11-03 06:00Z New York fall back
    1711846800,  # 2024-03-31 01:00Z London
    1729990800,  # 2024-10-27 01:00Z London
    1712415600,  # 2024-04-06 15:00Z Lord Howe (30-minute DST ends)
    1728142200,  # 2024-10-05 15:30Z Lord Howe
    1550368800,  # 2019-02-17 02:00Z Sao Paulo (last DST end)
    1541300400,  # 2018-11-04 03:00Z Sao Paulo
    1710036000,  # Casablanca Ramadan 2024
    1713060000,
    788918400,   # 1995-01-01 Kiritimati skipped a day
    0, 1, 86399, 86400, 2**31 - 1, 2**31, 2**32 - 1, 4102444800,
    951782400, 1709164800, 1709251199,  # leap days
    946684799, 946684800, 1735689599, 1735689600,  # year ends
]


def op_core(op):
    return {k: op[k] for k in ('op', 'frame', 'b', 'fn', 'v') if k in op}


def key_of(op):
    return json.dumps(op_core(op), sort_keys=True)


# ------------------------------------------------------------ value helpers

def int_only_value(r, depth=0, big=False):
    """Field values made of integers, bools, strings and containers only:
    everything in them is encodable, so any failure is about an integer."""
    c = r.random()
    if depth < 5 and c < 0.18:
        return {('k%d' % i if r.random() < 0.8 else 'z' * r.randint(1, 9)):
                int_only_value(r, depth + 1) for i in range(r.randint(0, 5))}
    if depth < 5 and c < 0.34:
        return [int_only_value(r, depth + 1) for _ in range(r.randint(0, 5))]
    if c < 0.40:
        return r.random() < 0.5
    if c < 0.46:
        return 's' * r.randint(0, 4)
    n = ladder_int(r)
    c = r.random()
    if c < 0.04:
        from sim.values import IntSub
        return IntSub(n)        # an int subclass is an integer too
    if c < 0.08:
        from sim.values import int_enum
        return int_enum(n)      # ... and so is an IntEnum member
    return n


def ladder_int(r):
    c = r.random()
    if c < 0.55:
        b = r.choice([7, 8, 15, 16, 31, 32, 63])
        s = r.choice([1, -1])
        return s * (1 << b) + r.choice([-2, -1, 0, 1, 2])
    if c < 0.75:
        return r.randint(-70000, 70000)
    if c < 0.9:
        return r.randint(-2**63, 2**63 - 1)
    return r.choice([2**63, -2**63 - 1, 2**64, -2**64, 2**70,
                     r.randint(-2**66, 2**66)])


def permute_desc(d, r):
    """Same contents, different insertion order at every nesting level."""
    if isinstance(d, dict) and 'd' in d:
        items = [[k, permute_desc(v, r)] for k, v in d['d']]
        r.shuffle(items)
        return {'d': items}
    if isinstance(d, list):
        return [permute_desc(v, r) for v in d]
    return d


def permute_frame(f, r):
    f = json.loads(json.dumps(f))
    if f['k'] == 'method':
        f['args'] = {k: permute_desc(v, r) for k, v in f['args'].items()}
    elif f['k'] == 'header':
        f['props'] = {k: permute_desc(v, r) for k, v in f['props'].items()}
    return f


ZONE_TRANSITIONS = [
    (1710054000, 'America/New_York'), (1730613600, 'America/New_York'),
    (1711846800, 'Europe/London'), (1729990800, 'Europe/London'),
    (1712415600, 'Australia/Lord_Howe'), (1728142200, 'Australia/Lord_Howe'),
    (1550368800, 'America/Sao_Paulo'), (1541300400, 'America/Sao_Paulo'),
    (1710036000, 'Africa/Casablanca'), (1713060000, 'Africa/Casablanca'),
]


def ts_value(r):
    """A timestamp input: naive / aware (utc, fixed offset, zoneinfo, fold)
    datetime or struct_time, biased to offset-transition instants."""
    import zoneinfo
    c = r.random()
    if c < 0.55:
        secs = r.choice(TRANSITIONS) + r.choice([-3601, -3600, -1801, -1800,
                                                 -1, 0, 1, 1799, 1800, 3599,
                                                 3600, 3601, 7200])
    elif c < 0.7:
        secs = r.choice([0, 2**31 - 1, 2**31, 2**32 - 1])
    else:
        secs = r.randint(0, 2**32 - 1)
    secs = max(0, min(2**32 - 1, secs))
    aware = datetime.datetime.fromtimestamp(secs, tz=UTC)
    us = r.choice([0, 0, 1, 500000, 999999])
    aware = aware.replace(microsecond=us)
    k = r.random()
    if k < 0.25:
        return aware.replace(tzinfo=None)
    if k < 0.40:
        return aware
    if k < 0.55:
        off = r.choice([-39600, -18000, -12600, 3600, 19800, 20700, 37800,
                        50400])
        return aware.astimezone(datetime.timezone(
            datetime.timedelta(seconds=off)))
    if k < 0.75:
        z = r.choice([z for z in ZONES if '/' in z])
        if r.random() < 0.6:
            # an instant in the hour before/after one of THIS zone's offset
            # changes (ambiguous or skipped local times)
            t0, z = r.choice(ZONE_TRANSITIONS)
            aware = datetime.datetime.fromtimestamp(
                t0 + r.randint(-3700, 3700), tz=UTC).replace(microsecond=us)
        dt = aware.astimezone(zoneinfo.ZoneInfo(z))
        if r.random() < 0.3:
            dt = dt.replace(fold=1 - dt.fold)
        return dt
    # struct_time, hand-built from the UTC fields (what gmtime would give)
    u = aware.replace(tzinfo=None)
    if k < 0.80:
        # tzinfo set but utcoffset() is None: naive by Python's definition
        from sim.values import NO_OFFSET
        return u.replace(tzinfo=NO_OFFSET)
    yday = (u - datetime.datetime(u.year, 1, 1)).days + 1
    isdst = r.choice([0, 0, 1, -1])
    fields = (u.year, u.month, u.day, u.hour, u.minute, u.second,
              u.weekday(), yday, isdst)
    if r.random() < 0.35:
        # the 11-field form time.localtime()/strptime('%z') produce
        return time.struct_time(fields + (r.choice(['EST', 'XYZ', None]),
                                          r.choice([-18000, 3600, 19800,
                                                    0, 50400])))
    return time.struct_time(fields)


# values that compare (and hash) equal in Python but have different wire
# forms: anything keyed on the value - a cache, a dict, a set - confuses them
def confusable_groups():
    import decimal
    D = decimal.Decimal
    naive = datetime.datetime(2024, 3, 10, 7, 0, 0)
    return [
        [0.0, -0.0],
        [D('2.5'), D('2.50'), D('2.500')],
        [1, True, 1.0, D(1)],
        [0, False, 0.0, D(0)],
        [127, 127.0, D(127)],
        [65535, 65535.0],
        [D('-1'), D('-1.0')],
        # many decimal places with a 32-bit mantissa, written positionally
        # (str() has a '.'): only such values take the scaling path
        [D('0.1234567891'), D('0.01234567891'), D('0.001234567891'),
         D('0.0001234567891'), D('0.2000000001'), D('0.02000000001')],
        # more significant digits than the default decimal context holds
        # (refused by the pinned encoder, setting sticky context flags on
        # the way) next to ordinary prices
        [D('1.2345678901234567890123456789012345'), D('19.99'),
         D('123456789012345678901234567890.5'), D('0.10'),
         D('0.1000000000000000000000000000000000001'), D('7.5')],
        [naive, naive.replace(tzinfo=UTC)],
        [{'a': 1}, {'a': True}, {'a': 1.0}],
        [[1, 0], [True, False], [1.0, 0.0]],
        ['', None],
    ]


def confusable_ts_ops():
    """Timestamp inputs that compare/hash equal (or look alike) but denote
    different instants or types: both folds of a repeated wall-clock hour,
    naive vs aware with the same fields, struct_time with differing isdst."""
    import zoneinfo
    out = []
    gi = 100
    falls = [('America/New_York', (2024, 11, 3, 1, 30, 0)),
             ('Europe/London', (2024, 10, 27, 1, 15, 0)),
             ('Australia/Lord_Howe', (2024, 4, 7, 1, 45, 0)),
             ('America/Sao_Paulo', (2019, 2, 16, 23, 30, 0))]
    for zone, f in falls:
        gi += 1
        z = zoneinfo.ZoneInfo(zone)
        for fold in (0, 1):
            dt = datetime.datetime(*f, tzinfo=z, fold=fold)
            out.append((gi, {'op': 'enc', 'fn': 'timestamp',
                             'v': to_desc(dt)}))
            out.append((gi, {'op': 'enc', 'fn': 'field_table',
                             'v': {'d': [['t', to_desc(dt)]]}}))
            for us in (0, 500000):
                out.append((gi, {'op': 'marshal', 'frame': {
                    'k': 'header', 'ch': 1, 'body_size': 1,
                    'props': {'timestamp': to_desc(
                        dt.replace(microsecond=us))}}}))
    gi += 1
    naive = datetime.datetime(2024, 7, 1, 12, 0, 0)
    for v in (naive, naive.replace(tzinfo=UTC),
              naive.replace(tzinfo=datetime.timezone(
                  datetime.timedelta(hours=5, minutes=30)))):
        out.append((gi, {'op': 'enc', 'fn': 'timestamp', 'v': to_desc(v)}))
    gi += 1
    for isdst in (0, 1, -1):
        st = time.struct_time((2024, 7, 1, 12, 0, 0, 0, 183, isdst))
        out.append((gi, {'op': 'enc', 'fn': 'timestamp', 'v': to_desc(st)}))
    return out


def confusable_ops(r):
    """[(group id, op)] - each value in a few encoder positions."""
    out = []
    for gi, group in enumerate(confusable_groups()):
        for v in group:
            d = to_desc(v)
            out.append((gi, {'op': 'enc', 'fn': 'encode_table_value',
                             'v': d}))
            out.append((gi, {'op': 'enc', 'fn': 'field_table',
                             'v': {'d': [['k', d]]}}))
            out.append((gi, {'op': 'enc', 'fn': 'field_array', 'v': [d]}))
            out.append((gi, {'op': 'marshal', 'frame': {
                'k': 'header', 'ch': 1, 'body_size': 1,
                'props': {'headers': {'d': [['k', d]]}}}}))
    return out


def raw_table(r, depth=0):
    """A grammar-valid field table as a foreign peer may send it: keys in
    arbitrary order, integers in non-minimal widths and unsigned tags.
    Encoded by the harness, not by pamqp."""
    import struct
    entries = []
    for i in range(r.randint(1, 5)):
        key = r.choice(['z', 'y', 'b', 'a', 'k%d' % i, 'x-death', 'm'])
        c = r.random()
        n = r.randint(0, 100)
        if c < 0.2:
            val = b'I' + struct.pack('>i', n)
        elif c < 0.35:
            val = b'l' + struct.pack('>q', n)
        elif c < 0.45:
            val = b'B' + struct.pack('>B', n)
        elif c < 0.55:
            val = b'u' + struct.pack('>H', n)
        elif c < 0.65:
            val = b's' + struct.pack('>h', n)
        elif c < 0.75:
            val = b'S' + struct.pack('>I', 2) + b'hi'
        elif c < 0.85 and depth < 2:
            val = b'F' + raw_table(r, depth + 1)
        elif c < 0.93 and depth < 2:
            inner = b''.join(b'I' + struct.pack('>i', r.randint(0, 9))
                             for _ in range(r.randint(0, 3)))
            if r.random() < 0.5:
                inner += b'F' + raw_table(r, depth + 1)
            val = b'A' + struct.pack('>I', len(inner)) + inner
        else:
            val = b't\x01'
        kb = key.encode()
        entries.append(bytes([len(kb)]) + kb + val)
    body = b''.join(entries)
    return struct.pack('>I', len(body)) + body


def raw_table_frame(r):
    """A Queue.Declare or content-header frame around a raw table."""
    import struct
    t = raw_table(r)
    if r.random() < 0.5:
        payload = struct.pack('>HHH', 50, 10, 0) + b'\x01q' + b'\x00' + t
        ftype = 1
    else:
        payload = struct.pack('>HHQH', 60, 0, 5, 0x2000) + t
        ftype = 2
    return struct.pack('>BHI', ftype, 1, len(payload)) + payload + b'\xce'


# ---------------------------------------------------------------- catalogue

def _try_encode(desc):
    try:
        return gen.encode_frame(desc)
    except Exception:
        return None


def build_catalogue(check, seed, size):
    r = random.Random('catalogue/%s/%d' % (check, seed))
    g = gen.Gen(r, max_depth=3, max_str=24, big=False)
    cat = []
    twins = []
    classes = sorted(gen.classes())

    def add(op):
        cat.append(op)
        if op['op'] == 'construct':
            twins.append({'op': 'marshal', 'frame': op['frame']})
        elif op['op'] == 'unmarshal':
            twins.append({'op': 'remarshal', 'b': op['b']})

    if check in ('C12', 'C16'):
        for gi, op in confusable_ops(r):
            op = dict(op, confusable=gi)
            cat.append(op)
    if check in ('C15', 'C16'):
        for gi, op in confusable_ts_ops():
            op = dict(op, confusable=gi)
            cat.append(op)
    if check == 'C16':
        # every class constructed with its defaults (shared-default
        # territory), so that any class meets itself within a history
        for name in classes:
            op = {'op': 'construct', 'frame': {'k': 'method', 'cls': name,
                                               'ch': 0, 'args': {}}}
            cat.append(op)
            twins.append({'op': 'marshal', 'frame': op['frame']})
        op = {'op': 'construct', 'frame': {'k': 'header', 'ch': 1,
                                           'body_size': 0, 'props': {},
                                           'noprops': True}}
        cat.append(op)
        twins.append({'op': 'marshal', 'frame': op['frame']})
    if check in ('C12', 'C16'):
        # bodies handed over as bytearray (the caller's own buffer) and as
        # memoryview, marshalled directly and as held objects
        for bi, n in enumerate((0, 1, 7, 300, 5000)):
            for flag in ('mutable', 'view'):
                d = {'k': 'body', 'ch': 1 + bi, flag: True,
                     'parts': [{'b': (bytes([65 + bi]) * n).hex()}]}
                gi = 600 + bi
                cat.append({'op': 'marshal', 'frame': d, 'confusable': gi})
                cat.append({'op': 'construct', 'frame': d,
                            'confusable': gi})
                twins.append({'op': 'marshal', 'frame': d})
        # the all-defaults payload of every method class, decoded (twice in
        # a history: a decoder may treat "nothing but defaults" specially)
        for ci, name in enumerate(classes):
            data = _try_encode({'k': 'method', 'cls': name, 'ch': 0,
                                'args': {}})
            if data is None:
                continue
            gi = 500 + ci
            cat.append({'op': 'unmarshal', 'b': data.hex(),
                        'confusable': gi})
            cat.append({'op': 'remarshal', 'b': data.hex(),
                        'confusable': gi})
            twins.append({'op': 'remarshal', 'b': data.hex()})
        # tables as foreign peers send them (decoded, then held, edited and
        # re-encoded by the caller), tables with run-wide distinct keys, and
        # decimals with many places as only crafted bytes carry
        for i in range(40):
            cat.append({'op': 'unmarshal', 'b': raw_table_frame(r).hex()})
            twins.append({'op': 'remarshal', 'b': cat[-1]['b']})
        for i in range(120):
            t = {'u%d_%d' % (i, j): r.choice([j, 'v', None, [j]])
                 for j in range(r.randint(4, 9))}
            if i % 10 == 0:
                t['L' * 129 + str(i)] = i
            cat.append({'op': 'enc', 'fn': 'field_table', 'v': to_desc(t)})
        for i in range(30):
            places = r.choice([9, 10, 12, 20, 28, 29, 30, 40, 64, 200, 255])
            raw = bytes([places]) + r.randint(0, 2**31 - 1).to_bytes(4, 'big')
            cat.append({'op': 'dec', 'fn': 'decimal', 'b': raw.hex()})
            cat.append({'op': 'dec', 'fn': 'embedded_value',
                        'b': (b'D' + raw).hex()})
    if check == 'C11':
        # integral floats next to the equal integers; encodes that die with
        # something other than TypeError inside a table
        import decimal
        gi = 200
        for n in (40000, 65535, 32768, 70000, 2**31 + 5, 300, -40000):
            gi += 1
            for v, flag in ((n, True), (float(n), False)):
                for fn, wrap in (('encode_table_value', lambda x: x),
                                 ('field_table', lambda x: {'n': x}),
                                 ('field_array', lambda x: [x, 1])):
                    op = {'op': 'enc', 'fn': fn, 'v': to_desc(wrap(v)),
                          'confusable': gi}
                    if flag:
                        op['c11'] = True
                    cat.append(op)
        for bad in (decimal.Decimal('NaN'), decimal.Decimal('Infinity'),
                    decimal.Decimal(10) ** 12,
                    datetime.datetime(1960, 1, 1, tzinfo=UTC)):
            for wrap in (lambda x: {'p': x, 'n': 40000},
                         lambda x: {'o': {'i': [x]}}):
                cat.append({'op': 'enc', 'fn': 'field_table',
                            'v': to_desc(wrap(bad)), 'poison': True})
    marker = 0
    while len(cat) < size:
        marker += 1
        c = r.random()
        if check == 'C16':
            if c < 0.30:
                d = g.frame(marker)
                add({'op': 'marshal', 'frame': d})
            elif c < 0.42:
                # construct with (mostly) defaults: shared-default territory
                k = r.random()
                if k < 0.5:
                    d = {'k': 'method', 'cls': r.choice(classes), 'ch': 0,
                         'args': {}}
                elif k < 0.7:
                    d = {'k': 'header', 'ch': 1, 'body_size': r.randint(0, 9),
                         'props': {}, 'noprops': True}
                else:
                    d = g.frame(marker, (('method', 3), ('header', 1)))
                add({'op': 'construct', 'frame': d})
            elif c < 0.68:
                d = g.frame(marker)
                data = _try_encode(d)
                if data is None:
                    continue
                add({'op': 'unmarshal', 'b': data.hex()})
                if d['k'] == 'header' and d['props'] and r.random() < 0.5:
                    # same property values under other property names
                    a = gen_a.alias_header(r, [d])
                    adata = _try_encode(a) if a else None
                    if adata is not None:
                        gi = 300 + marker
                        cat[-1] = dict(cat[-1], confusable=gi)
                        cat.append({'op': 'unmarshal', 'b': adata.hex(),
                                    'confusable': gi})
                        twins.append({'op': 'remarshal', 'b': adata.hex()})
            elif c < 0.80:
                if r.random() < 0.5:
                    d, data = gen_a.table_heavy_frame(r, g, marker)
                else:
                    d = g.frame(marker, (('method', 3), ('header', 2)))
                    data = _try_encode(d)
                if data is None or len(data) < 9:
                    continue
                fl = gen_a.corrupt_fault(r, 0, data, gen_a.CORRUPT_KINDS)
                b = bytearray(data)
                for off, dl, hx in sorted(fl['patches'], reverse=True):
                    b[off:off + dl] = bytes.fromhex(hx)
                from sim import wiremap
                nd = wiremap.reframe(bytes(b)) if fl['reframe'] else bytes(b)
                add({'op': 'unmarshal', 'b': nd.hex(), 'damaged': True})
            elif c < 0.90:
                fn = r.choice(['field_table', 'field_array',
                               'encode_table_value', 'table_integer',
                               'timestamp'])
                if fn == 'field_table':
                    v = g.table(1)
                elif fn == 'field_array':
                    v = g.array(1)
                elif fn == 'table_integer':
                    v = ladder_int(r)
                elif fn == 'timestamp':
                    v = ts_value(r)
                else:
                    v = g.value(0)
                add({'op': 'enc', 'fn': fn, 'v': to_desc(v)})
            else:
                v = g.table(1)
                try:
                    data = lib.encode.field_table(v)
                except Exception:
                    continue
                dmg = False
                if r.random() < 0.3 and len(data) > 5:
                    b = bytearray(data)
                    b[r.randrange(len(b))] = r.getrandbits(8)
                    data = bytes(b)
                    dmg = True
                op = {'op': 'dec', 'fn': 'field_table', 'b': data.hex()}
                if dmg:
                    op['damaged'] = True
                add(op)
        elif check == 'C12':
            k = r.random()
            if k < 0.22:
                # objects the caller keeps and encodes again (marshal_slot,
                # in-place edits): constructed and decoded frames
                d = g.frame(marker, (('method', 2), ('header', 3)))
                if r.random() < 0.6:
                    add({'op': 'construct', 'frame': d})
                else:
                    data = _try_encode(d)
                    if data is not None:
                        add({'op': 'unmarshal', 'b': data.hex()})
                continue
            k = r.random()
            if k < 0.45:
                v = g.table(1, r.choice([2, 3, 5, 8]))
                if r.random() < 0.25:
                    v['K' * 128 + 'b'] = 1
                    v['K' * 128 + 'a'] = 2
                    v['K' * 130] = [{'y': 1, 'x': 2}]
                if r.random() < 0.4:
                    v['arr'] = [{'zz': 1, 'aa': [{'q': 1, 'b': 2}], 'mm': 3},
                                g.table(2, 3)]
                fn = r.choice(['field_table', 'encode_table_value'])
                base = {'op': 'enc', 'fn': fn, 'v': to_desc(v)}
            elif k < 0.55:
                kk = r.random()
                if kk < 0.4:
                    v = [g.table(2, 4), g.table(2, 3), g.array(2)]
                elif kk < 0.6:
                    v = [g.text(6) or 'q' for _ in range(r.randint(2, 6))]
                elif kk < 0.8:
                    v = [r.randint(-300, 300) for _ in range(r.randint(2, 6))]
                else:
                    v = [[3, 1, 2], ['b', 'a'], {'y': ['d', 'c'], 'x': [2, 1]},
                         bytearray(b'zyx'), g.value(1)]
                base = {'op': 'enc', 'fn': 'field_array', 'v': to_desc(v)}
            elif k < 0.85:
                d = g.frame(marker, (('method', 3), ('header', 2)))
                base = {'op': 'marshal', 'frame': d}
            else:
                d = g.frame(marker, (('body', 1), ('heartbeat', 1),
                                     ('method', 2)))
                base = {'op': 'marshal', 'frame': d}
            add(base)
            fk = key_of(base)
            for _ in range(r.choice([1, 2, 3])):
                if base['op'] == 'enc':
                    p = dict(base, v=permute_desc(base['v'], r))
                else:
                    p = dict(base, frame=permute_frame(base['frame'], r))
                p['family'] = fk
                cat.append(p)
        elif check == 'C15':
            k = r.random()
            if k < 0.40:
                add({'op': 'enc', 'fn': 'timestamp',
                     'v': to_desc(ts_value(r))})
            elif k < 0.55:
                secs = max(0, min(2**32 - 1, r.choice(TRANSITIONS) +
                                  r.choice([-3600, -1, 0, 1, 3600])))
                raw = secs
                form = r.random()
                if form < 0.35:
                    # a peer that sends milliseconds (decoder: > 2^32-1)
                    raw = max(2**32, secs * 1000 + r.choice([0, 1, 500, 999]))
                if form < 0.6 or raw == secs and form < 0.75:
                    add({'op': 'dec', 'fn': 'timestamp',
                         'b': raw.to_bytes(8, 'big').hex()})
                elif form < 0.85:
                    add({'op': 'dec', 'fn': 'field_table',
                         'b': (b'\x00\x00\x00\x0b\x01tT' +
                               raw.to_bytes(8, 'big')).hex()})
                else:
                    # content header carrying only the timestamp property
                    payload = b'\x00\x3c\x00\x00' + (7).to_bytes(8, 'big') \
                        + b'\x00\x40' + raw.to_bytes(8, 'big')
                    fr = b'\x02\x00\x01' + len(payload).to_bytes(4, 'big') \
                        + payload + b'\xce'
                    add({'op': 'unmarshal', 'b': fr.hex()})
            elif k < 0.70:
                v = {'when': ts_value(r), 'n': 1,
                     'list': [ts_value(r), 'x']}
                add({'op': 'enc', 'fn': 'field_table', 'v': to_desc(v)})
            elif k < 0.85:
                d = {'k': 'header', 'ch': 1, 'body_size': 3,
                     'props': {'timestamp': to_desc(ts_value(r)),
                               'headers': to_desc({'t': ts_value(r)})}}
                c3 = r.random()
                if c3 < 0.4:
                    add({'op': 'marshal', 'frame': d})
                elif c3 < 0.6:
                    # built once, held, and marshalled several times
                    add({'op': 'construct', 'frame': d})
                else:
                    data = _try_encode(d)
                    if data is not None:
                        add({'op': 'unmarshal', 'b': data.hex()})
            else:
                v = {'t': ts_value(r), 'arr': [ts_value(r)]}
                try:
                    data = lib.encode.field_table(v)
                except Exception:
                    continue
                add({'op': 'dec', 'fn': 'field_table', 'b': data.hex()})
        elif check == 'C11':
            k = r.random()
            if k < 0.25:
                add({'op': 'enc', 'fn': r.choice(['table_integer',
                                                  'encode_table_value']),
                     'v': ladder_int(r), 'c11': True})
            elif k < 0.50:
                v = int_only_value(r, 0)
                if not isinstance(v, dict):
                    v = {'v': v}
                add({'op': 'enc', 'fn': 'field_table', 'v': to_desc(v),
                     'c11': True})
            elif k < 0.62:
                v = int_only_value(r, 0)
                if not isinstance(v, list):
                    v = [v]
                if r.random() < 0.4:
                    # long arrays of plain ints with a wide spread
                    v = [ladder_int(r) for _ in range(r.randint(8, 40))]
                    v = [x for x in v if -2**63 <= x <= 2**63 - 1] or [0]
                    if r.random() < 0.5:
                        v = {'deep': [v, {'k': v[:9]}]}
                add({'op': 'enc', 'fn': 'field_array' if isinstance(v, list)
                     else 'field_table', 'v': to_desc(v), 'c11': True})
            elif k < 0.80:
                t = int_only_value(r, 0)
                if not isinstance(t, dict):
                    t = {'v': t}
                if r.random() < 0.5:
                    d = {'k': 'method', 'ch': 1, 'cls': r.choice(
                        ['Queue.Declare', 'Exchange.Declare', 'Basic.Consume',
                         'Connection.StartOk', 'Queue.Bind']),
                        'args': {}}
                    cls = gen.classes()[d['cls']]
                    tn = [s for s in cls.__slots__
                          if cls.amqp_type(s) == 'table'][0]
                    d['args'][tn] = to_desc(t)
                else:
                    d = {'k': 'header', 'ch': 1, 'body_size': 1,
                         'props': {'headers': to_desc(t)}}
                add({'op': 'marshal', 'frame': d, 'c11': True})
            else:
                fn = r.choice(sorted(
                    ['short_int', 'short_uint', 'long_int', 'long_uint',
                     'long_long_int']))
                from sim.models import FIXED_RANGES
                lo, hi, w, sg = FIXED_RANGES[fn]
                n = r.choice([lo - 2, lo - 1, lo, lo + 1, -1, 0, 1, hi - 1,
                              hi, hi + 1, hi + 2, r.randint(lo, hi),
                              r.randint(-2**65, 2**65)])
                add({'op': 'enc', 'fn': fn, 'v': n, 'c11': True})
    return cat, twins


# ------------------------------------------------------------------- traces

_BY_CLASS = {}


def ops_by_class(cat):
    """method class name -> catalogue ops that construct, encode or decode
    a frame of that class ('header' for content headers)."""
    k = id(cat)
    if k not in _BY_CLASS:
        _BY_CLASS.clear()
        m = {}
        for o in cat:
            name = None
            if 'frame' in o:
                f = o['frame']
                name = f.get('cls') if f['k'] == 'method' else (
                    'header' if f['k'] == 'header' else None)
            elif o['op'] == 'unmarshal' and not o.get('damaged'):
                b = bytes.fromhex(o['b'][:22])
                if len(b) >= 11 and b[0] == 1:
                    c_ = lib.commands.INDEX_MAPPING.get(
                        int.from_bytes(b[7:11], 'big'))
                    name = c_.name if c_ else None
                elif b[:1] == b'\x02':
                    name = 'header'
            if name:
                m.setdefault(name, []).append(o)
        _BY_CLASS[k] = m
    return _BY_CLASS[k]


_FAULTY = {}


def faulty_ops(cat):
    """Catalogue ops that decode damaged bytes."""
    k = id(cat)
    if k not in _FAULTY:
        _FAULTY.clear()
        _FAULTY[k] = [o for o in cat if o.get('damaged')]
    return _FAULTY[k]


def setattr_op(r, ref, src_op):
    """Attribute assignment on a held constructed frame."""
    if src_op['op'] != 'construct':
        return None
    f = src_op['frame']
    if f['k'] == 'method':
        cls = gen.classes()[f['cls']]
        slots = list(cls.__slots__)
        if not slots:
            return None
        tables = [s_ for s_ in slots if cls.amqp_type(s_) == 'table']
        name = r.choice(tables) if tables and r.random() < 0.7 \
            else r.choice(slots)
        wire = cls.amqp_type(name)
        on_props = False
    elif f['k'] == 'header':
        P = lib.commands.Basic.Properties
        name = r.choice(['headers', 'headers', 'app_id', 'priority',
                         'timestamp'])
        wire = P.amqp_type(name)
        on_props = True
    else:
        return None
    if wire == 'table':
        v = r.choice([None, None, {'d': []}, {'d': [['z', 1], ['a', 2]]}])
    elif wire == 'shortstr':
        v = r.choice(['', 'changed', None])
    elif wire == 'bit':
        v = r.random() < 0.5
    elif wire in ('octet', 'short', 'long', 'longlong'):
        v = r.choice([0, 1, 7])
    elif wire == 'longstr':
        v = r.choice(['', 'changed'])
    elif wire == 'timestamp':
        v = None
    else:
        return None
    return {'op': 'setattr', 'ref': ref, 'name': name, 'v': v,
            'on_props': on_props}


def gen_schedule(r, nthreads, est_steps):
    if nthreads == 1:
        return [], 'none'
    if r.random() < 0.5:
        p = r.choice([0.005, 0.01, 0.02, 0.05, 0.1, 0.2])
        sched = []
        step = 0
        while step < est_steps * 2 and len(sched) < 400:
            # geometric gap
            gap = 1
            while r.random() > p and gap < 5000:
                gap += 1
            step += gap
            sched.append([step, r.randrange(8)])
        return sched, 'coin:%g' % p
    d = r.randint(1, 5)
    pts = sorted(r.randint(1, max(2, est_steps)) for _ in range(d))
    return [[s, r.randrange(8)] for s in pts], 'pct:%d' % d


def gen_trace(rng, check, population, tier, cat):
    r = rng
    threaded = population.startswith('threads')
    toggles = 'toggle' in population or check == 'C11'
    n = r.choice([2, 2, 3, 4]) if threaded else 1
    tr = {'world': 'B', 'check': check, 'population': population,
          'tz0': 'UTC', 'switch0': False}
    if check == 'C12':
        tr['tz0'] = r.choice(ZONES)
        tr['switch0'] = r.random() < 0.4
    if check == 'C15':
        tr['tz0'] = r.choice(ZONES)
    if check == 'C11':
        tr['switch0'] = r.random() < 0.5
    # a focus class per run (rotating with the run index): a third of the
    # calls construct, encode or decode frames of that one class, so every
    # class meets itself within a history in every batch
    focus_ops = []
    if check in ('C16', 'C12'):
        bc = ops_by_class(cat)
        names = sorted(bc)
        if names:
            focus_ops = bc[names[getattr(r, 'run_index', 0) % len(names)]]
    threads = []
    carry = []
    for t in range(n):
        prog = []
        # equal-but-different siblings of what the previous thread encodes,
        # first thing in this thread: both meet the same code early
        for gi in carry:
            sib = [o for o in cat if o.get('confusable') == gi]
            if sib:
                prog.extend(r.choice(sib) for _ in range(r.choice((1, 2))))
        carry = []
        L = r.randint(4, 30) if not threaded else r.randint(3, 14)
        if population == 'long':
            L = r.randint(150, 400)
        if population == 'long_faulty':
            L = r.randint(300, 700)
        for i in range(L):
            c = r.random()
            if toggles and c < (0.18 if check == 'C11' else 0.08):
                if threaded and check == 'C11' and t != 0 and \
                        r.random() < 0.7:
                    pass  # most toggling comes from thread 0
                else:
                    prog.append({'op': 'toggle',
                                 'v': r.choice([True, False, None])})
                    continue
            if check == 'C15' and c < 0.22:
                prog.append({'op': 'tz', 'zone': r.choice(ZONES)})
                continue
            if check in ('C12', 'C16') and c > 0.955:
                # the process time zone is ambient state for these two as
                # well: "same bytes twice" and "depends only on arguments
                # and the switch" must survive a zone jump between calls
                prog.append({'op': 'tz', 'zone': r.choice(ZONES)})
                ts = [o for o in cat if o.get('op') == 'enc' and
                      o.get('fn') == 'timestamp']
                if ts:   # and something that carries a timestamp right after
                    prog.append(r.choice(ts))
                continue
            if check in ('C16', 'C12', 'C15') and c < (
                    0.30 if check != 'C15' else 0.34) and prog:
                # caller-side actions on results still held
                cands = [(tt, j) for tt in range(len(threads) + 1)
                         for j in range(len(threads[tt]) if tt < len(threads)
                                        else len(prog))
                         if (threads[tt] if tt < len(threads) else prog)[j]
                         ['op'] in ('construct', 'unmarshal', 'dec')]
                if cands:
                    # prefer constructed frames (they can be edited by
                    # attribute) over decoded ones
                    cons = [c_ for c_ in cands if (
                        threads[c_[0]] if c_[0] < len(threads) else prog)
                        [c_[1]]['op'] == 'construct']
                    ref = list(r.choice(cons if cons and r.random() < 0.6
                                        else cands))
                    c2 = r.random()
                    if check == 'C15':
                        # the held object is sent again (and again, maybe
                        # under another zone)
                        prog.append({'op': 'marshal_slot', 'ref': ref})
                        if r.random() < 0.5:
                            if r.random() < 0.5:
                                prog.append({'op': 'tz',
                                             'zone': r.choice(ZONES)})
                            prog.append({'op': 'marshal_slot', 'ref': ref})
                        continue
                    if check == 'C16' and c2 > 0.88:
                        # keep a part of a decoded result, drop the rest
                        dec = [c_ for c_ in cands if (
                            threads[c_[0]] if c_[0] < len(threads) else prog)
                            [c_[1]]['op'] == 'unmarshal']
                        prog.append({'op': 'keep_part',
                                     'ref': list(r.choice(dec or cands))})
                        continue
                    if c2 < (0.40 if check == 'C16' else 0.25):
                        prog.append({'op': 'mutate', 'ref': ref,
                                     'how': r.randrange(8)})
                        if r.random() < 0.6:   # ... and send it again
                            prog.append({'op': 'marshal_slot', 'ref': ref})
                    elif c2 < (0.55 if check == 'C16' else 0.50):
                        sop = (threads[ref[0]] if ref[0] < len(threads)
                               else prog)[ref[1]]
                        sa = setattr_op(r, ref, sop)
                        if sa:
                            prog.append(sa)
                        prog.append({'op': 'marshal_slot', 'ref': ref})
                    else:
                        prog.append({'op': 'marshal_slot', 'ref': ref})
                    continue
            if prog and r.random() < 0.12:
                # the same call again (right away, or one from a moment ago)
                back = [o for o in prog[-4:] if o['op'] in (
                    'marshal', 'construct', 'unmarshal', 'enc', 'dec')]
                if back:
                    prog.append(back[-1] if r.random() < 0.6
                                else r.choice(back))
                    continue
            op = r.choice(cat)
            if focus_ops and r.random() < 0.3:
                op = r.choice(focus_ops)
            if population == 'long_faulty' and r.random() < 0.5:
                faulty = faulty_ops(cat)
                if faulty:
                    op = r.choice(faulty)
                    if r.random() < 0.08:
                        # hammer: the same failing decode many times over -
                        # whatever an error path leaks adds up
                        prog.extend([op] * r.randint(40, 200))
            prog.append(op)
            if 'confusable' in op and threaded and r.random() < 0.5 \
                    and len(carry) < 3:
                carry.append(op['confusable'])
            if 'confusable' in op and r.random() < 0.7:
                # its equal-but-different siblings belong in the same history
                sib = [o for o in cat if o.get('confusable') ==
                       op['confusable']]
                for _ in range(r.choice((1, 1, 2, 3))):
                    prog.append(r.choice(sib))
        if population in ('long', 'long_faulty') and len(prog) > 20:
            # the same calls at the start and again after a long time
            anchors = [o for o in prog[:12] if o['op'] in (
                'marshal', 'unmarshal', 'enc', 'dec', 'construct')][:4]
            prog.extend(anchors)
        threads.append(prog)
        if population == 'threads_mirror':
            break
    if population == 'threads_mirror':
        # every thread runs (nearly) the same program: identical calls meet
        # in the same first-time code paths (lazy initialisation, table
        # growth) at the same time, and the novel-line policy switches
        # exactly there
        base = [o for o in threads[0] if o['op'] not in ('mutate', 'setattr',
                                                         'marshal_slot')]
        threads = [list(base)]
        for t in range(1, n):
            p2 = list(base)
            if r.random() < 0.4 and len(p2) > 2:
                i = r.randrange(len(p2) - 1)
                p2[i], p2[i + 1] = p2[i + 1], p2[i]
            if r.random() < 0.3:
                p2 = p2[r.randrange(0, min(3, len(p2))):]
            threads.append(p2)
    tr['threads'] = threads
    est = sum(len(p) for p in threads) * 120
    tr['schedule'], tr['policy'] = gen_schedule(r, n, est)
    tr['exit_picks'] = [r.randrange(8) for _ in range(4)]
    tr['first'] = r.randrange(n)
    if n > 1 and (r.random() < 0.5 or population == 'threads_mirror'):
        tr['novel'] = {'every': r.choice([1, 1, 2, 3, 5]),
                       'picks': [r.randrange(8) for _ in range(6)]}
    if r.random() < 0.15:
        tr['debug_log'] = True
        if r.random() < 0.4:
            tr['log_reenter'] = True   # the log handler uses pamqp itself
    ncancel = r.choice([0, 0, 0, 1, 2]) if check in ('C16', 'C12') else 0
    tr['cancels'] = sorted(r.randint(1, max(2, est)) for _ in range(ncancel))
    return tr


def gen_sweep_trace(rng, i):
    """C11 integer sweep: block i of 1000 consecutive integers from
    [-70000, 70000], each state, top-level and nested positions."""
    r = rng
    blocks = 141
    b = i % blocks
    legacy = (i // blocks) % 2 == 1
    lo = -70000 + b * 1000
    hi = min(70000, lo + 999)
    nums = list(range(lo, hi + 1))
    prog = [{'op': 'toggle', 'v': r.choice([True, None]) if legacy
             else False}]
    prog.append({'op': 'enc', 'fn': 'field_array', 'v': nums, 'c11': True})
    prog.append({'op': 'enc', 'fn': 'field_table', 'c11': True,
                 'v': {'d': [['k%06d' % j, n] for j, n in
                             enumerate(nums[::7])] +
                       [['nest', {'d': [['a', [nums[0], nums[-1]]]]}]]}})
    for n in nums:
        prog.append({'op': 'enc', 'fn': 'table_integer', 'v': n,
                     'c11': True})
    return {'world': 'B', 'check': 'C11', 'population': 'sweep',
            'tz0': 'UTC', 'switch0': r.random() < 0.5, 'threads': [prog],
            'schedule': [], 'exit_picks': [0], 'first': 0, 'cancels': [],
            'policy': 'none'}
