"""Seeded workload generation: frame descriptors and field values.

Everything here draws from the `random.Random` it is given and from nothing
else.  The output is an explicit descriptor (plain JSON, see sim.values), so
executing or replaying a trace never needs this module's random choices again.
"""
import datetime
import decimal

from sim import lib
from sim.values import to_desc, from_desc, UTC

INT_EDGES = []
for _b in (7, 8, 15, 16, 31, 32, 63, 64):
    for _s in (1, -1):
        for _d in (-2, -1, 0, 1, 2):
            INT_EDGES.append(_s * (1 << _b) + _d)
INT_EDGES += [0, 1, -1, 2, 10, 100, 127, 128, 255, 256, 1000, 65535, 65536]

ALPHABETS = [
    'abcdefghijklmnopqrstuvwxyzABCDEFGHIJKLMNOPQRSTUVWXYZ0123456789',
    'abc-_.:@#,/ 019XYZ',
    'éüßñÅÎî',           # 2-byte UTF-8
    '中文日本語€☃',           # 3-byte
    '\U0001f600\U0001f4a9\U00010348\U0010ffff',             # 4-byte
    '\x00\x01\x7f\t\n\r "\'\\',                             # controls
    'AMQPÎ',
]
NAME_ALPHABET = 'abcdefghijklmnopqrstuvwxyzABCDEFGHIJKLMNOPQRSTUVWXYZ' \
                '0123456789-_.:@#,/ '

REAL_KEYS = ['x-death', 'x-first-death-exchange', 'x-first-death-queue',
             'x-originating-application-instance-identifier (v2)',
             'x-message-ttl', 'x-dead-letter-exchange', 'x-max-priority',
             'CC', 'BCC', 'x-stream-offset', 'x-queue-type',
             'content-disposition-filename-with-a-very-long-name.txt',
             'traceparent', 'X-B3-TraceId', 'x-delay',
             # names with a meaning to applications, log filters, brokers
             'password', 'secret', 'token', 'credentials', 'authorization',
             'api_key', 'PASSWORD', 'LOGIN', 'product', 'version',
             'capabilities', 'x-match', 'user_id', 'host', 'targets']
COMMON_STRINGS = ['', 'a', 'gzip', 'text/plain', 'application/json', 'utf-8',
                  'guest', '1', '2', 'amq.direct']

# Frame-looking byte strings used inside bodies and as trailers.
LOOKALIKES = [
    b'\xce', b'\xce\xce\xce', b'AMQP', b'AMQP\x00\x00\x09\x01',
    b'\x08\x00\x00\x00\x00\x00\x00\xce',          # a whole heartbeat
    b'\x08\x00\x00\x00\x00\x00\x00',              # heartbeat header only
    b'\x01\x00\x01\x00\x00\x00\x04',              # method header, size 4
    b'\x03\x00\x01\x7f\xff\xff\xff',              # body header, huge size
    b'\x02\x00\x00\xff\xff\xff\xff',              # header frame, size 2^32-1
    b'\x01\x00\x00\x00\x00\x00\x05\x00\x0a\x00\x33\xce',  # Connection.CloseOk
    b'\x00\x00\x00\x00\x00\x00\x00', b'\xff' * 7,
]


def method_classes():
    """name -> class for the method classes reachable through INDEX_MAPPING."""
    out = {}
    for idx in sorted(lib.commands.INDEX_MAPPING):
        cls = lib.commands.INDEX_MAPPING[idx]
        out[cls.name] = cls
    return out


_CLASSES = None


def classes():
    global _CLASSES
    if _CLASSES is None:
        _CLASSES = method_classes()
    return _CLASSES


class Gen:
    def __init__(self, rng, max_depth=4, max_str=40, big=False):
        self.r = rng
        self.max_depth = max_depth
        self.max_str = max_str
        self.big = big
        self.method_pool = None
        self._arg_mode = {}

    # ----------------------------------------------------------- primitives
    def integer(self, lo, hi):
        r = self.r
        c = r.random()
        if c < 0.35:
            cands = [e for e in INT_EDGES if lo <= e <= hi]
            cands += [lo, hi, lo + 1, hi - 1]
            return r.choice(cands)
        if c < 0.6:
            return max(lo, min(hi, r.randint(-300, 300)))
        return r.randint(lo, hi)

    def text(self, max_chars=None, alphabet=None):
        r = self.r
        if max_chars is None:
            max_chars = self.max_str
        c = r.random()
        if c < 0.15:
            n = 0
        elif c < 0.7:
            n = r.randint(1, min(12, max_chars)) if max_chars else 0
        else:
            n = r.randint(0, max_chars)
        if alphabet is None:
            k = r.random()
            if k < 0.55:
                alphabet = ALPHABETS[0]
            else:
                alphabet = ''.join(r.sample(ALPHABETS, r.randint(1, 3)))
        return ''.join(r.choice(alphabet) for _ in range(n))

    def shortstr(self, alphabet=None, max_bytes=255):
        r = self.r
        if r.random() < 0.08:  # aim at the 255-byte limit
            s = self.text(255, alphabet)
            if r.random() < 0.5:
                s = (s + 'x' * 255)
        else:
            s = self.text(None, alphabet)
        while len(s.encode('utf-8')) > max_bytes:
            s = s[:-1]
        return s

    def longstr(self):
        r = self.r
        c = r.random()
        if c < 0.9 or not self.big:
            return self.text(self.max_str * 3)
        unit = self.text(8) or 'z'
        return {'rep': [unit, r.randint(1000, 12000)]}

    def key(self):
        r = self.r
        c = r.random()
        if c < 0.75:
            return self.text(10, ALPHABETS[0]) or 'k'
        if c < 0.80:
            return r.choice(REAL_KEYS)
        if c < 0.88:
            return self.shortstr()
        if c < 0.92:
            return 'K' * r.choice([127, 128, 129, 130, 200])
        if c < 0.94:
            # over-long key with multi-byte characters around position 128
            pad = r.choice([125, 126, 127, 128])
            return 'k' * pad + r.choice(['é', '中', '\U0001f600']) * \
                r.randint(1, 4) + 'z' * r.randint(0, 40)
        if c < 0.97:
            # header names as real peers send them: long, mostly
            # conforming, one odd character somewhere
            return r.choice(REAL_KEYS) if r.random() < 0.5 else (
                ''.join(r.choice('abcdefghijklmnopqrstuvwxyz_$#')
                        for _ in range(r.randint(20, 60))) +
                r.choice([' ', '(', '!', '-', '.', 'é']) + self.text(4))
        return ''

    def timestamp_dt(self):
        r = self.r
        c = r.random()
        if c < 0.2:
            secs = r.choice([0, 1, 86399, 86400, 2**31 - 1, 2**31, 2**32 - 1,
                             951782400, 1709164800, 4102444800])
        else:
            secs = r.randint(0, 2**32 - 1)
        aware = datetime.datetime.fromtimestamp(secs, tz=UTC)
        k = r.random()
        if k < 0.5:
            return aware
        if k < 0.75:
            return aware.replace(tzinfo=None)
        off = r.choice([-39600, -18000, 3600, 19800, 20700, 50400])
        return aware.astimezone(datetime.timezone(
            datetime.timedelta(seconds=off)))

    def dec(self):
        r = self.r
        c = r.random()
        if c < 0.3:
            return decimal.Decimal(r.randint(0, 10**6))
        places = r.randint(1, 6)
        if c > 0.9:
            # many places, 32-bit mantissa, positional notation (the
            # adjusted exponent stays >= -6, so str() contains a '.')
            places = r.randint(9, 14)
            digits = r.randint(10**8, 2 * 10**9)
            return decimal.Decimal(digits).scaleb(-places) \
                if places - len(str(digits)) < 6 else \
                decimal.Decimal(digits).scaleb(-(len(str(digits)) + 3))
        unscaled = r.randint(-10**6, 10**6) if c > 0.6 else \
            r.randint(0, 10**6)
        return decimal.Decimal(unscaled).scaleb(-places)

    def floatv(self):
        r = self.r
        c = r.random()
        if c < 0.3:
            return r.choice([0.0, -0.0, 1.0, -1.5, 3.5, 1e10, 1e-10,
                             float('inf'), float('-inf'), float('nan'),
                             3.4028234663852886e38, 1.1754943508222875e-38])
        return r.uniform(-1e6, 1e6)

    # ---------------------------------------------------------- field values
    def value(self, depth=0):
        r = self.r
        c = r.random()
        lim = self.max_depth
        if depth < lim and c < 0.10:
            return self.table(depth + 1)
        if depth < lim and c < 0.20:
            return self.array(depth + 1)
        c = r.random()
        if c < 0.28:
            return self.integer(-2**63, 2**63 - 1)
        if c < 0.30:
            from sim.values import IntSub, int_enum
            n = self.integer(-2**63, 2**63 - 1)
            return IntSub(n) if r.random() < 0.5 else int_enum(n)
        if c < 0.40:
            return r.random() < 0.5
        if c < 0.41:
            from sim.values import StrSub
            return StrSub(self.text())
        if c < 0.55:
            return self.text()
        if c < 0.62:
            return self.floatv()
        if c < 0.70:
            return self.dec()
        if c < 0.78:
            return self.timestamp_dt()
        if c < 0.86:
            n = r.choice([0, 1, 2, 5, 17, 64])
            return bytearray(r.getrandbits(8) for _ in range(n))
        if c < 0.93:
            return None
        return self.text(3)

    def table(self, depth=1, max_items=None):
        r = self.r
        if max_items is None:
            max_items = r.choice([0, 1, 1, 2, 3, 5, 8])
        if r.random() < 0.03:
            return {'': self.value(depth)}
        out = {}
        for _ in range(max_items):
            out[self.key()] = self.value(depth)
        return out

    def array(self, depth=1):
        r = self.r
        n = r.choice([0, 1, 1, 2, 3, 5, 8])
        return [self.value(depth) for _ in range(n)]

    def deep_table(self, depth):
        """A chain of depth nested containers (occasional deep nesting)."""
        r = self.r
        v = {'leaf': self.integer(-2**63, 2**63 - 1)}
        for i in range(depth):
            if r.random() < 0.5:
                v = {'n%d' % i: v, 'x': self.integer(-300, 300)}
            else:
                v = {'a%d' % i: [v, self.text(4)]}
        return v

    def deep_array(self, depth):
        """Arrays nested in arrays only (no table level in between)."""
        v = [self.r.choice([1, 'x', None, True])]
        for _ in range(depth):
            v = [v]
        return v

    def big_array(self):
        r = self.r
        n = r.choice([200, 500, 2000, 5000])
        k = r.random()
        if k < 0.3:
            return [None] * n
        if k < 0.6:
            return [r.randint(-128, 127) for _ in range(n)]
        return [self.text(3) for _ in range(n)]

    def any_table(self):
        r = self.r
        c = r.random()
        if c < 0.25:
            return {}
        if c < 0.90:
            return self.table(1)
        if c < 0.93:
            return self.deep_table(r.choice([5, 8, 16, 32]))
        if c < 0.95:
            return {'nest': self.deep_array(r.choice([6, 12, 18, 24, 30]))}
        if self.big:
            return {'big': self.big_array()}
        return self.table(1)

    # --------------------------------------------------------------- frames
    def arg_mode(self, cls, name, wire):
        """How an argument may be generated: learned once per class/argument
        by probing the constructor (deterministic for a given tree)."""
        k = (cls.name, name)
        m = self._arg_mode.get(k)
        if m is not None:
            return m
        m = _ARG_MODE_CACHE.get(k)
        if m is None:
            m = _probe_arg(cls, name, wire)
            _ARG_MODE_CACHE[k] = m
        self._arg_mode[k] = m
        return m

    def method_args(self, cls, marker=None):
        r = self.r
        args = {}
        for name in cls.__slots__:
            wire = cls.amqp_type(name)
            mode = self.arg_mode(cls, name, wire)
            if mode == 'fixed':
                continue
            if r.random() < 0.15 and not mode.endswith('required'):
                continue  # leave the default
            if wire == 'bit':
                v = r.random() < 0.5
            elif wire == 'octet':
                v = self.integer(0, 255)
            elif wire == 'short':
                v = self.integer(0, 65535)
            elif wire == 'long':
                v = self.integer(0, 2**32 - 1)
            elif wire == 'longlong':
                v = self.integer(-2**63, 2**63 - 1)
                if marker is not None and name == 'delivery_tag':
                    v = marker
            elif wire == 'shortstr':
                if mode in ('name', 'name-required'):
                    v = self.shortstr(NAME_ALPHABET, 127)
                else:
                    v = self.shortstr()
                if marker is not None and name == 'consumer_tag':
                    v = 'ctag-%d' % marker
            elif wire == 'longstr':
                v = self.longstr()
            elif wire == 'table':
                v = self.any_table()
                if marker is not None and r.random() < 0.5:
                    v['~m'] = marker
            elif wire == 'timestamp':
                v = self.timestamp_dt()
            else:
                continue
            args[name] = v if wire == 'longstr' and isinstance(v, dict) \
                else to_desc(v)
        return args

    def method_frame(self, marker=None, names=None):
        r = self.r
        cl = classes()
        name = r.choice(names or self.method_pool or sorted(cl))
        cls = cl[name]
        return {'k': 'method', 'cls': name, 'ch': self.channel(),
                'args': self.method_args(cls, marker)}

    def channel(self):
        r = self.r
        c = r.random()
        if c < 0.5:
            return r.randint(0, 3)
        if c < 0.8:
            return r.choice([0, 1, 255, 256, 32767, 32768, 65534, 65535])
        return r.randint(0, 65535)

    def props(self):
        r = self.r
        P = lib.commands.Basic.Properties
        out = {}
        dens = r.choice([0.0, 0.1, 0.3, 0.6, 1.0])
        for name in P.__slots__:
            if name == 'cluster_id' or r.random() >= dens:
                continue
            wire = P.amqp_type(name)
            if name == 'delivery_mode':
                v = r.choice([1, 2])
            elif wire == 'octet':
                v = self.integer(0, 255) if r.random() < 0.6 \
                    else r.choice([0, 1, 2, 9])
            elif wire == 'shortstr':
                # the same few strings turn up in different properties
                v = self.shortstr() if r.random() < 0.65 \
                    else r.choice(COMMON_STRINGS)
            elif wire == 'table':
                v = self.any_table()
            elif wire == 'timestamp':
                v = self.timestamp_dt()
            else:
                continue
            out[name] = to_desc(v)
        return out

    def header_frame(self, marker=None):
        r = self.r
        c = r.random()
        if marker is not None and c < 0.5:
            size = marker
        elif c < 0.8:
            size = self.integer(0, 2**64 - 1)
        else:
            size = r.randint(0, 131072)
        d = {'k': 'header', 'ch': self.channel(), 'body_size': size,
             'props': self.props()}
        if r.random() < 0.15:
            d['weight'] = r.choice([1, 2, 255, 256, 65535])
        return d

    def body_frame(self, marker=None, max_len=4096):
        r = self.r
        parts = []
        if r.random() < 0.04:
            # the encoder produces a size-0 body frame for an empty body
            return {'k': 'body', 'ch': self.channel(), 'parts': []}
        if r.random() < 0.03:
            # a text body handed over as str (refused by the pinned encoder;
            # if an encoder accepts it, sizes count bytes, not characters)
            return {'k': 'body', 'ch': self.channel(), 'parts': [],
                    'text': '#%s#' % marker + r.choice(
                        ['plain ascii', 'gr\u00fc\u00dfe \u2708', '\u4e2d\u6587',
                         '\U0001f600', self.text(20)])}
        if marker is not None:
            parts.append({'b': (b'#%d#' % marker).hex()})
        c = r.random()
        if c < 0.35:   # adversarial content
            for _ in range(r.randint(1, 4)):
                parts.append({'b': r.choice(LOOKALIKES).hex()})
                if r.random() < 0.5:
                    parts.append({'b': bytes(r.getrandbits(8) for _ in
                                             range(r.randint(0, 12))).hex()})
        elif c < 0.85:
            n = r.choice([1, 2, 7, 8, 9, 64, r.randint(1, 300)])
            parts.append({'b': bytes(r.getrandbits(8)
                                     for _ in range(n)).hex()})
        else:
            n = r.choice([4096, 65536, 131072 - 8, 131072,
                          r.randint(1000, max(1001, max_len))])
            n = min(n, max_len)
            unit = bytes(r.getrandbits(8) for _ in range(16))
            if r.random() < 0.3:
                unit = b'\xce' + unit[1:]
            parts.append({'rep': [{'b': unit.hex()}, max(1, n // 16)]})
        if not parts:
            parts.append({'b': '00'})
        d = {'k': 'body', 'ch': self.channel(), 'parts': parts}
        c = r.random()
        if c < 0.1:
            d['mutable'] = True   # the caller hands over a bytearray
        elif c < 0.13:
            d['view'] = True      # ... or a memoryview of its buffer
        return d

    def frame(self, marker=None, mix=None, max_body=4096):
        r = self.r
        mix = mix or (('method', 5), ('header', 2), ('body', 2),
                      ('heartbeat', 1))
        kinds = [k for k, w in mix for _ in range(w)]
        k = r.choice(kinds)
        if k in ('method', 'header', 'body'):
            d = self.method_frame(marker) if k == 'method' else \
                self.header_frame(marker) if k == 'header' else \
                self.body_frame(marker, max_body)
            if r.random() < 0.05 and not d.get('noprops') and \
                    d.get('text') is None:
                # the application builds the object first and fills it in
                # afterwards, attribute by attribute
                d['via_setattr'] = True
                if k == 'header' and r.random() < 0.5:
                    # values the constructor refuses but the encoder (which
                    # does not validate properties) accepts, as they arise
                    # when a peer's header is relayed or edited in place
                    if r.random() < 0.6:
                        d['props']['delivery_mode'] = r.choice([0, 3, 200])
                    else:
                        d['props']['cluster_id'] = 'c%d' % r.randint(1, 9)
            return d
        if k == 'protocol':
            return {'k': 'protocol',
                    'v': [r.choice([0, 0, 1, 9, 255, r.randint(0, 255)])
                          for _ in range(3)]}
        # (the pinned encoder ignores the channel of a heartbeat; the
        # producer asks for one anyway, as an application may)
        return {'k': 'heartbeat', 'ch': r.choice([0, 0, 0, 1, 7, r.getrandbits(16)])}


_ARG_MODE_CACHE = {}
_FIXED_HINT = ('ticket', 'capabilities', 'insist', 'out_of_band',
               'known_hosts', 'cluster_id', 'channel_id', 'nowait_')


def _probe_arg(cls, name, wire):
    """'free' | 'name' | 'fixed' for one constructor argument."""
    probes = {'bit': True, 'octet': 7, 'short': 7, 'long': 7, 'longlong': 7,
              'shortstr': '*é', 'longstr': '*é', 'table': {'a': 1},
              'timestamp': datetime.datetime(2020, 1, 1, tzinfo=UTC)}
    if wire not in probes:
        return 'fixed'
    try:
        required = getattr(cls(), name) is None
    except Exception:
        required = False
    try:
        cls(**{name: probes[wire]})
        return 'free-required' if required else 'free'
    except ValueError:
        pass
    except Exception:
        return 'fixed'
    if wire == 'shortstr':
        try:
            cls(**{name: 'ab-_.:@#,/ 01'})
            return 'name-required' if required else 'name'
        except Exception:
            return 'fixed'
    return 'fixed'


# ------------------------------------------------------ descriptor -> object

def build_frame(desc):
    """Descriptor -> (frame object or raw bytes, channel)."""
    k = desc['k']
    ch = desc.get('ch', 0)
    if k == 'method':
        cls = classes()[desc['cls']]
        kwargs = {n: from_desc(v) for n, v in desc['args'].items()}
        if desc.get('via_setattr'):
            # built with its defaults, then filled in attribute by attribute
            obj = cls()
            for n, v in kwargs.items():
                setattr(obj, n, v)
            return obj, ch
        return cls(**kwargs), ch
    if k == 'header' and desc.get('noprops'):
        return lib.header.ContentHeader(desc.get('weight', 0),
                                        desc['body_size']), ch
    if k == 'header':
        if desc.get('via_setattr'):
            props = lib.commands.Basic.Properties()
            for n, v in desc['props'].items():
                setattr(props, n, from_desc(v))
            obj = lib.header.ContentHeader()
            obj.weight = desc.get('weight', 0)
            obj.body_size = desc['body_size']
            obj.properties = props
            return obj, ch
        props = lib.commands.Basic.Properties(
            **{n: from_desc(v) for n, v in desc['props'].items()})
        return lib.header.ContentHeader(desc.get('weight', 0),
                                        desc['body_size'], props), ch
    if k == 'body':
        if desc.get('text') is not None:
            return lib.body.ContentBody(desc['text']), ch
        data = b''.join(from_desc(p) for p in desc['parts'])
        if desc.get('mutable'):
            data = bytearray(data)
        elif desc.get('view'):
            data = memoryview(data)
        if desc.get('via_setattr'):
            # constructed around some other value, the real one assigned
            obj = lib.body.ContentBody(b'x' * (len(data) // 2 + 3))
            obj.value = data
            return obj, ch
        return lib.body.ContentBody(data), ch
    if k == 'heartbeat':
        return lib.heartbeat.Heartbeat(), ch
    if k == 'protocol':
        return lib.header.ProtocolHeader(*desc['v']), 0
    if k == 'raw':
        return bytes.fromhex(desc['b']), ch
    raise ValueError('unknown frame descriptor kind %r' % (k,))


def encode_frame(desc):
    obj, ch = build_frame(desc)
    if isinstance(obj, bytes):
        return obj
    return lib.frame.marshal(obj, ch)
