"""Independent grammar walker over *valid* AMQP 0-9-1 encodings.

Returns the offsets of every length field, type tag, flag word, scale octet,
timestamp and string in an encoded frame or field table.  World A uses it only
to aim faults and cuts (never as an oracle); C11/C12 use the table walker to
read the type tags and key order the encoder emitted.  It does not call any
pamqp decoder; method argument types come from the class metadata
(`__slots__`, `amqp_type`).
"""
import struct

from sim import lib


class WalkError(Exception):
    pass


def _u(buf, off, n):
    if off + n > len(buf):
        raise WalkError('short at %d' % off)
    return int.from_bytes(buf[off:off + n], 'big')


FIXED = {b't': 1, b'b': 1, b'B': 1, b's': 2, b'u': 2, b'I': 4, b'i': 4,
         b'l': 8, b'L': 8, b'f': 4, b'd': 8, b'T': 8, b'V': 0, b'\x00': 0}


def walk_value(buf, off, out, depth=0, path=()):
    """Walk one tagged field value starting at its tag. Returns new offset."""
    tag = bytes(buf[off:off + 1])
    if not tag:
        raise WalkError('no tag at %d' % off)
    out.append((off, 1, 'tag', tag, path))
    off += 1
    if tag in FIXED:
        n = FIXED[tag]
        if off + n > len(buf):
            raise WalkError('short value')
        if n:
            kind = 'timestamp' if tag == b'T' else 'fixed'
            out.append((off, n, kind, tag, path))
        return off + n
    if tag == b'D':
        out.append((off, 1, 'scale', tag, path))
        out.append((off + 1, 4, 'fixed', tag, path))
        if off + 5 > len(buf):
            raise WalkError('short decimal')
        return off + 5
    if tag in (b'S', b'x'):
        n = _u(buf, off, 4)
        out.append((off, 4, 'len4', tag, path))
        if off + 4 + n > len(buf):
            raise WalkError('short string')
        if n:
            out.append((off + 4, n, 'data', tag, path))
        return off + 4 + n
    if tag == b'F':
        return walk_table(buf, off, out, depth + 1, path)
    if tag == b'A':
        return walk_array(buf, off, out, depth + 1, path)
    raise WalkError('unknown tag %r at %d' % (tag, off - 1))


def walk_table(buf, off, out, depth=0, path=()):
    n = _u(buf, off, 4)
    out.append((off, 4, 'table_len', b'F', path))
    off += 4
    end = off + n
    if end > len(buf):
        raise WalkError('short table')
    while off < end:
        kl = _u(buf, off, 1)
        out.append((off, 1, 'key_len', b'', path))
        key = bytes(buf[off + 1:off + 1 + kl])
        if kl:
            out.append((off + 1, kl, 'key', key, path))
        off += 1 + kl
        off = walk_value(buf, off, out, depth, path + (key,))
    if off != end:
        raise WalkError('table overrun')
    return off


def walk_array(buf, off, out, depth=0, path=()):
    n = _u(buf, off, 4)
    out.append((off, 4, 'array_len', b'A', path))
    off += 4
    end = off + n
    if end > len(buf):
        raise WalkError('short array')
    i = 0
    while off < end:
        off = walk_value(buf, off, out, depth, path + (i,))
        i += 1
    if off != end:
        raise WalkError('array overrun')
    return off


def _walk_arg(buf, off, wire, out, name):
    if wire == 'octet':
        out.append((off, 1, 'fixed', wire, (name,)))
        return off + 1
    if wire == 'short':
        out.append((off, 2, 'fixed', wire, (name,)))
        return off + 2
    if wire == 'long':
        out.append((off, 4, 'fixed', wire, (name,)))
        return off + 4
    if wire == 'longlong':
        out.append((off, 8, 'fixed', wire, (name,)))
        return off + 8
    if wire == 'timestamp':
        out.append((off, 8, 'timestamp', wire, (name,)))
        return off + 8
    if wire == 'shortstr':
        n = _u(buf, off, 1)
        out.append((off, 1, 'len1', wire, (name,)))
        if n:
            out.append((off + 1, n, 'data', wire, (name,)))
        return off + 1 + n
    if wire == 'longstr':
        n = _u(buf, off, 4)
        out.append((off, 4, 'len4', wire, (name,)))
        if n:
            out.append((off + 4, n, 'data', wire, (name,)))
        return off + 4 + n
    if wire == 'table':
        return walk_table(buf, off, out, 0, (name,))
    raise WalkError('unknown wire type %r' % (wire,))


def walk_frame(buf):
    """Field map of one complete valid frame: list of
    (offset, length, kind, info, path). Raises WalkError if it cannot."""
    out = []
    if buf[:4] == b'AMQP':
        out.append((0, 4, 'amqp', b'', ()))
        out.append((4, 1, 'fixed', b'', ()))
        out.append((5, 3, 'version', b'', ()))
        return out
    if len(buf) < 8:
        raise WalkError('short frame')
    ftype = buf[0]
    size = _u(buf, 3, 4)
    out.append((0, 1, 'ftype', b'', ()))
    out.append((1, 2, 'channel', b'', ()))
    out.append((3, 4, 'size', b'', ()))
    if len(buf) != size + 8:
        raise WalkError('size mismatch')
    out.append((len(buf) - 1, 1, 'end', b'', ()))
    off = 7
    end = len(buf) - 1
    if ftype == 1:
        idx = _u(buf, off, 4)
        out.append((off, 2, 'class_id', b'', ()))
        out.append((off + 2, 2, 'method_id', b'', ()))
        off += 4
        cls = lib.commands.INDEX_MAPPING.get(idx)
        if cls is None:
            raise WalkError('unknown method')
        inbits = 0
        for name in cls.__slots__:
            wire = cls.amqp_type(name)
            if wire == 'bit':
                if inbits == 0 or inbits == 8:
                    out.append((off, 1, 'bits', wire, (name,)))
                    off += 1
                    inbits = 0
                inbits += 1
                continue
            inbits = 0
            off = _walk_arg(buf, off, wire, out, name)
        if off != end:
            raise WalkError('method overrun %d != %d' % (off, end))
    elif ftype == 2:
        out.append((off, 2, 'class_id', b'', ()))
        out.append((off + 2, 2, 'weight', b'', ()))
        out.append((off + 4, 8, 'body_size', b'', ()))
        off += 12
        flags = _u(buf, off, 2)
        out.append((off, 2, 'flags', b'', ()))
        off += 2
        if flags & 1:
            raise WalkError('continuation flag')
        P = lib.commands.Basic.Properties
        for name in P.__slots__:
            if flags & P.flags[name]:
                off = _walk_arg(buf, off, P.amqp_type(name), out, name)
        if off != end:
            raise WalkError('header overrun')
    elif ftype == 3:
        if size:
            out.append((7, size, 'data', b'body', ()))
    elif ftype == 8:
        pass
    else:
        raise WalkError('unknown frame type')
    return out


def table_tags(buf):
    """All (path, tag, raw value bytes) of an encoded field table."""
    out = []
    end = walk_table(buf, 0, out)
    if end != len(buf):
        raise WalkError('trailing bytes after table')
    return out


def reframe(buf):
    """Fix the frame-size field and the end octet of a (damaged) frame so that
    the envelope is consistent with the bytes actually present."""
    if len(buf) < 8 or buf[:4] == b'AMQP':
        return buf
    b = bytearray(buf)
    b[3:7] = struct.pack('>I', len(b) - 8)
    b[-1] = 0xCE
    return bytes(b)
