"""Common core: seeds, parallel batches, known findings, replay files,
evidence.  See DESIGN.md section 3.1 and 7.

Exit codes: 0 property held on everything explored; 1 VIOLATION (not listed
in KNOWN_FINDINGS.txt); 2 harness error (never 0 after a worker death, a
timeout or a replay mismatch).
"""
import faulthandler
import hashlib
import json
import logging
import os
import pickle
import random
import resource
import signal
import subprocess
import sys
import time

VERIF = os.path.dirname(os.path.dirname(os.path.abspath(__file__)))
EVIDENCE_DIR = os.environ.get('VERIF_EVIDENCE_DIR') or \
    os.path.join(VERIF, 'evidence')
REPLAY_DIR = os.environ.get('VERIF_REPLAY_DIR') or \
    os.path.join(VERIF, 'replays')
KNOWN_FILE = os.path.join(VERIF, 'KNOWN_FINDINGS.txt')
PY = sys.executable


class HarnessError(Exception):
    pass


def ensure_hashseed():
    """Re-exec under PYTHONHASHSEED=0 unless the caller fixed one already."""
    if os.environ.get('PYTHONHASHSEED') is None:
        env = dict(os.environ, PYTHONHASHSEED='0',
                   PYTHONDONTWRITEBYTECODE='1')
        os.execve(PY, [PY] + sys.argv, env)


def base_seed():
    try:
        return int(os.environ.get('VERIF_SEED', '0'))
    except ValueError:
        return 0


def run_seed(check, seed, population, i):
    h = hashlib.sha256(('%s/%d/%s/%d' % (check, seed, population, i))
                       .encode()).digest()
    return int.from_bytes(h[:8], 'big')


def rng_for(check, seed, population, i):
    r = random.Random(run_seed(check, seed, population, i))
    r.run_index = i
    return r


def quiet_library_logging():
    logging.disable(logging.CRITICAL)


class _FormattingHandler(logging.Handler):
    """What a deployment with debug logging switched on does to every record:
    format it (and here, drop it).  With `reenter` the handler also uses the
    library itself, the way a handler that ships log records over AMQP does:
    a decode and an encode from inside whatever library call logged."""
    reenter = False
    _busy = False

    def createLock(self):
        # no handler lock: with `reenter` the handler executes library lines,
        # i.e. pre-emption points, and a real lock held across a baton switch
        # would block the next thread that logs for ever (a deadlock of the
        # harness, not of the library)
        self.lock = None

    def emit(self, record):
        record.getMessage()
        if self.reenter and not _FormattingHandler._busy:
            _FormattingHandler._busy = True
            try:
                from sim import lib
                for raw in (b'\x08\x00\x05\x00\x00\x00\x00\xce',
                            b'AMQP\x00\x01\x02\x03',
                            b'\x01\x00\x01\x00\x00\x00\x04\x00\x0a\x00\x33'
                            b'\xce'):
                    try:
                        lib.frame.unmarshal(raw)
                    except Exception:
                        pass
                try:
                    lib.frame.marshal(lib.commands.Basic.Ack(7), 3)
                    lib.frame.marshal(lib.header.ContentHeader(
                        0, 2, lib.commands.Basic.Properties(
                            headers={'level': record.levelname})), 3)
                except Exception:
                    pass
            finally:
                _FormattingHandler._busy = False

    def handleError(self, record):
        raise


def apply_logging_config(trace):
    """The logging configuration is ambient state too: a run may execute
    with DEBUG logging enabled for the library's loggers (trace flag
    'debug_log'), as applications commonly do."""
    if trace.get('debug_log'):
        logging.disable(logging.NOTSET)
        lg = logging.getLogger('pamqp')
        lg.setLevel(logging.DEBUG)
        lg.propagate = False
        if not any(isinstance(h, _FormattingHandler) for h in lg.handlers):
            lg.addHandler(_FormattingHandler())
        _FormattingHandler.reenter = bool(trace.get('log_reenter'))
    else:
        logging.disable(logging.CRITICAL)


# ------------------------------------------------------------ known findings

def load_known():
    known, fixed = [], []
    if os.path.exists(KNOWN_FILE):
        for line in open(KNOWN_FILE):
            line = line.strip()
            if not line or line.startswith('#'):
                continue
            if line.startswith('finding:'):
                rest = line[len('finding:'):].strip()
                parts = rest.split(' ', 2)
                prop = parts[0].split('=', 1)[1]
                cls = json.loads(parts[1].split('=', 1)[1])
                known.append({'property': prop, 'class': cls,
                              'what': parts[2] if len(parts) > 2 else ''})
            elif line.startswith('fixed:'):
                fixed.append(line)
    return known, fixed


def is_known(known, prop, cls):
    for k in known:
        if k['property'] == prop and k['class'] == cls:
            return k
    return None


# ------------------------------------------------------- process isolation
#
# Every run executes in a freshly forked child of a process that has only
# ever *imported* the library.  So a run's outcome is a function of its trace
# and the code alone - not of which runs (or which workload generation) the
# same worker happened to execute before - and a replay in a fresh
# interpreter sees the same library state.  Without this, library-level
# hidden state (a cache, a shared default) makes violations depend on the
# chunking of runs over workers and replays fail to reproduce.

class ChildFailed(Exception):
    pass


class PlainViolation:
    """Picklable image of a world's Violation."""

    def __init__(self, v):
        self.prop = v.prop
        self.oracle = v.oracle
        self.cls = v.cls
        self.detail = v.detail
        self.buf = getattr(v, 'buf', None)
        self._json = v.to_json()

    def to_json(self):
        return self._json


CHILD_TIMEOUT = float(os.environ.get('VERIF_CHILD_TIMEOUT_S', '90'))


HEAVY_POPULATIONS = ('soak', 'capacity', 'huge_threads')


def _proc_cpu(pid):
    try:
        with open('/proc/%d/stat' % pid) as f:
            st = f.read()
        rest = st[st.rindex(')') + 2:].split()
        return (int(rest[11]) + int(rest[12])) / float(
            os.sysconf('SC_CLK_TCK'))
    except (OSError, ValueError, IndexError):
        return None


def in_child(fn, *args, timeout=None):
    """Run fn(*args) in a forked child; return its (pickled) result.  A child
    that does not finish within CHILD_TIMEOUT seconds (C-level unbounded work
    the step meter cannot see) is killed and reported as ChildFailed."""
    import select
    r, w = os.pipe()
    sys.stdout.flush()
    sys.stderr.flush()
    pid = os.fork()
    if pid == 0:
        code = 1
        try:
            os.close(r)
            try:
                payload = ('ok', fn(*args))
            except Exception:
                import traceback
                payload = ('err', traceback.format_exc()[-3000:])
            try:
                data = pickle.dumps(payload, protocol=pickle.HIGHEST_PROTOCOL)
            except BaseException:
                import traceback
                data = pickle.dumps(('err', 'result could not be pickled: ' +
                                     traceback.format_exc()[-2000:]))
            with os.fdopen(w, 'wb') as f:
                f.write(data)
            code = 0
        finally:
            os._exit(code)
    os.close(w)
    chunks = []
    limit = timeout or CHILD_TIMEOUT
    t_start = time.time()
    timed_out = False
    while True:
        # the limit is CPU time of the child (a loaded machine must not
        # turn a slow run into a failure); wall clock only as a last resort
        wall = time.time() - t_start
        if wall > limit * 8:
            timed_out = True
            break
        if wall > limit:
            cpu = _proc_cpu(pid)
            if cpu is None or cpu > limit:
                timed_out = True
                break
        ready, _, _ = select.select([r], [], [], 2.0)
        if not ready:
            continue
        b = os.read(r, 1 << 20)
        if not b:
            break
        chunks.append(b)
    os.close(r)
    if timed_out:
        try:
            os.kill(pid, signal.SIGKILL)
        except OSError:
            pass
        os.waitpid(pid, 0)
        raise ChildFailed('child still running after %.0f s; killed' %
                          (timeout or CHILD_TIMEOUT))
    data = b''.join(chunks)
    _, status = os.waitpid(pid, 0)
    if not data:
        raise ChildFailed('child exited with status %d and no result' %
                          status)
    kind, val = pickle.loads(data)
    if kind == 'err':
        raise HarnessError('in child: ' + val)
    return val


def _exec_job(spec_mod, check, trace, keep_log, want_sample):
    import importlib
    try:   # same address-space limit wherever a run executes
        resource.setrlimit(resource.RLIMIT_AS, (3 * 1024 ** 3,) * 2)
    except (ValueError, OSError):
        pass
    mod = importlib.import_module(spec_mod)
    res = mod.execute(check, trace, keep_log)
    v = res.get('violation')
    if v is not None:
        res['violation'] = PlainViolation(v)
    if want_sample:
        res['sample'] = mod.sample_view(trace, res)
    if not keep_log:
        res['log'] = None
    return res


def isolated_execute(spec_mod, check, trace, keep_log=False,
                     want_sample=False):
    import importlib
    mod = importlib.import_module(spec_mod)
    if hasattr(mod, 'pre_execute'):
        mod.pre_execute(check, trace)   # parent side; never calls the library
    heavy = isinstance(trace, dict) and (
        trace.get('population') in HEAVY_POPULATIONS or
        str(trace.get('population')).endswith('sweep'))
    return in_child(_exec_job, spec_mod, check, trace, keep_log, want_sample,
                    timeout=CHILD_TIMEOUT * 8 if heavy else None)


def _gen_job(spec_mod, check, seed, population, tier, lo, hi):
    import importlib
    mod = importlib.import_module(spec_mod)
    out = []
    for i in range(lo, hi):
        rng = rng_for(check, seed, population, i)
        out.append(mod.generate(check, population, rng, tier))
        heartbeat()
    return out


def isolated_generate(spec_mod, check, seed, population, tier, lo, hi):
    return in_child(_gen_job, spec_mod, check, seed, population, tier, lo,
                    hi)


# -------------------------------------------------------------- worker side

def _worker_init(limit_as):
    faulthandler.enable()
    if limit_as:
        try:
            resource.setrlimit(resource.RLIMIT_AS, (limit_as, limit_as))
        except (ValueError, OSError):
            pass
    quiet_library_logging()


class Aggregate:
    """Mergeable statistics of a set of runs."""

    def __init__(self):
        self.runs = 0
        self.nontrivial = set()
        self.fired = {}
        self.probes = {}
        self.oracles = {}
        self.events = 0
        self.calls = 0
        self.steps = 0
        self.extra = {}
        self.violations = []   # [(population, i, cls, violation json)]
        self.samples = []
        self.harness_errors = []

    def add_counts(self, dst, src):
        for k, v in src.items():
            dst[k] = dst.get(k, 0) + v

    def merge(self, o):
        self.runs += o.runs
        self.nontrivial |= o.nontrivial
        self.add_counts(self.fired, o.fired)
        self.add_counts(self.probes, o.probes)
        self.add_counts(self.oracles, o.oracles)
        self.events += o.events
        self.calls += o.calls
        self.steps += o.steps
        for k, v in o.extra.items():
            if isinstance(v, (int, float)) and k.startswith('max_'):
                self.extra[k] = max(self.extra.get(k, 0), v)
            elif isinstance(v, (int, float)):
                self.extra[k] = self.extra.get(k, 0) + v
            elif isinstance(v, set):
                self.extra.setdefault(k, set()).update(v)
        seen = {json.dumps(v[2]) for v in self.violations}
        for v in o.violations:
            if json.dumps(v[2]) not in seen:
                seen.add(json.dumps(v[2]))
                self.violations.append(v)
        if len(self.samples) < 3:
            self.samples.extend(o.samples[:3 - len(self.samples)])
        self.harness_errors.extend(o.harness_errors)


def _selftest_fault(population, i):
    """Harness self-test only (VERIF_TEST_FAULT=pop:i:mode[:marker]): make
    the worker running one run crash or stall, to exercise the pool's
    attribution and retry logic."""
    spec = os.environ.get('VERIF_TEST_FAULT')
    if not spec:
        return
    parts = spec.split(':')
    if parts[0] != population or int(parts[1]) != i:
        return
    mode = parts[2]
    if mode.endswith('-once'):
        marker = parts[3]
        if os.path.exists(marker):
            return
        open(marker, 'w').close()
    if mode.startswith('crash'):
        os.kill(os.getpid(), signal.SIGSEGV)
    if mode.startswith('stall'):
        while True:
            pass


WAL_PATH = [None]


def heartbeat():
    """Called by long runs from harness loops BETWEEN library calls: the
    run is making progress (a library call that never returns still
    stalls, because nothing calls this meanwhile)."""
    p = WAL_PATH[0]
    if p:
        try:
            os.utime(p)
        except OSError:
            pass


def _run_chunk(args):
    (spec_mod, check, seed, population, tier, lo, hi, wal_path,
     want_sample) = args
    agg = Aggregate()
    WAL_PATH[0] = wal_path
    if wal_path:
        with open(wal_path, 'w') as f:
            f.write('%s %d\n' % (population, lo))
    traces = isolated_generate(spec_mod, check, seed, population, tier, lo,
                               hi)
    for i, trace in zip(range(lo, hi), traces):
        if wal_path:
            with open(wal_path, 'w') as f:
                f.write('%s %d\n' % (population, i))
        try:
            _selftest_fault(population, i)
            res = isolated_execute(spec_mod, check, trace, False,
                                   want_sample and len(agg.samples) < 2)
        except HarnessError as e:  # harness failure, never a verdict
            agg.harness_errors.append(
                '%s/%s/%d: %s' % (check, population, i, str(e)[-1500:]))
            continue
        agg.runs += 1
        if res.get('nontrivial'):
            agg.nontrivial.add(res['digest'][:16])
        if i < 64:
            agg.extra.setdefault('digests', set()).add(
                '%s/%d=%s' % (population, i, res['digest'][:24]))
        agg.add_counts(agg.fired, res.get('fired', {}))
        agg.add_counts(agg.probes, res.get('probes', {}))
        agg.add_counts(agg.oracles, res.get('oracles', {}))
        agg.events += res.get('events', 0)
        agg.calls += res.get('calls', 0)
        agg.steps += res.get('steps', 0)
        for k, v in res.get('extra', {}).items():
            if isinstance(v, set):
                agg.extra.setdefault(k, set()).update(v)
            elif k.startswith('max_'):
                agg.extra[k] = max(agg.extra.get(k, 0), v)
            else:
                agg.extra[k] = agg.extra.get(k, 0) + v
        v = res.get('violation')
        if v is not None and res.get('trace_patch'):
            # the run found the violation in one explored interleaving:
            # the replayable trace names it
            trace = dict(trace, **res['trace_patch'])
        if v is not None:
            key = json.dumps(v.cls)
            if all(json.dumps(x[2]) != key for x in agg.violations):
                agg.violations.append((population, i, v.cls, v.to_json(),
                                       trace))
        if res.get('sample') is not None and len(agg.samples) < 2 and \
                res.get('nontrivial'):
            agg.samples.append(res['sample'])
    return agg


# -------------------------------------------------------------- parent side
#
# A small fork-per-chunk pool.  The parent knows every child's pid, exit
# status and write-ahead record, so a worker that dies or stalls is
# attributed to one run, that run is re-tried alone, and nothing else is
# lost.  Workers are single-threaded (no watchdog thread inside them); the
# wall-clock backstop is the parent watching the write-ahead files.

class _Child:
    __slots__ = ('pid', 'job', 'wal', 'out', 'started', 'killed',
                 'cpu_mark', 'cpu_checked')


def _spawn(job, spec_mod, check, seed, tier, wal_dir, serial):
    population, lo, hi, want_sample = job
    c = _Child()
    c.job = job
    c.wal = os.path.join(wal_dir, 'wal%d' % serial)
    c.out = os.path.join(wal_dir, 'out%d' % serial)
    c.started = time.time()
    c.killed = False
    c.cpu_mark = None
    c.cpu_checked = 0
    sys.stdout.flush()
    sys.stderr.flush()
    pid = os.fork()
    if pid == 0:
        code = 1
        try:
            os.setpgrp()   # so that a stalled run's child dies with us
            _worker_init(3 * 1024 ** 3)
            agg = _run_chunk((spec_mod, check, seed, population, tier, lo,
                              hi, c.wal, want_sample))
            with open(c.out + '.tmp', 'wb') as f:
                pickle.dump(agg, f, protocol=pickle.HIGHEST_PROTOCOL)
            os.replace(c.out + '.tmp', c.out)
            code = 0
        except BaseException:
            import traceback
            traceback.print_exc()
        finally:
            sys.stdout.flush()
            sys.stderr.flush()
            os._exit(code)
    c.pid = pid
    return c


def _kill_group(pid):
    for f in (os.killpg, os.kill):
        try:
            f(pid, signal.SIGKILL)
        except OSError:
            pass


_CLK = os.sysconf('SC_CLK_TCK') if hasattr(os, 'sysconf') else 100


def _group_cpu(pgid):
    """CPU seconds used so far by the live processes of a process group
    (a worker, the run it forked, that run's helpers)."""
    total = 0
    try:
        pids = [d for d in os.listdir('/proc') if d.isdigit()]
    except OSError:
        return None
    for d in pids:
        try:
            with open('/proc/%s/stat' % d) as f:
                st = f.read()
            rest = st[st.rindex(')') + 2:].split()
            if int(rest[2]) == pgid:
                total += int(rest[11]) + int(rest[12])
        except (OSError, ValueError, IndexError):
            continue
    return total / float(_CLK)


def _wal_read(path):
    try:
        with open(path) as f:
            population, i = f.read().split()
        return population, int(i), os.path.getmtime(path)
    except Exception:
        return None


def run_batches(spec_mod, check, tier, plan, workers=None, wall_cap=None,
                chunk=None, wal_dir=None):
    """plan: [(population, n_runs)].  Returns (Aggregate, info dict)."""
    seed = base_seed()
    workers = workers or int(os.environ.get('VERIF_WORKERS') or
                             min(16, os.cpu_count() or 1))
    t0 = time.time()
    agg = Aggregate()
    info = {'planned': sum(n for _, n in plan), 'workers': workers,
            'worker_deaths': 0, 'timed_out': False, 'per_population': {},
            'transient_worker_failures': [], 'confirmed_timeouts': [],
            'confirmed_crashes': []}
    queue = []
    for population, n in plan:
        csz = chunk or max(1, min(100, n // (workers * 4) or 1))
        for lo in range(0, n, csz):
            queue.append((population, lo, min(n, lo + csz), lo == 0))
    queue.reverse()
    wal_dir = wal_dir or os.path.join(
        '/dev/shm' if os.path.isdir('/dev/shm') else '/tmp',
        'verif-wal-%d' % os.getpid())
    os.makedirs(wal_dir, exist_ok=True)
    live = {}
    serial = 0
    retried = {}     # (population, i) -> number of solo attempts
    stall_limit = float(os.environ.get('VERIF_STALL_S', '30'))

    def limit_for(population):
        return stall_limit * 4 if population.endswith('sweep') or \
            population in HEAVY_POPULATIONS else stall_limit

    try:
        while queue or live:
            while queue and len(live) < workers:
                job = queue.pop()
                serial += 1
                c = _spawn(job, spec_mod, check, seed, tier, wal_dir, serial)
                live[c.pid] = c
            # reap
            reaped = False
            for pid in list(live):
                try:
                    rpid, status = os.waitpid(pid, os.WNOHANG)
                except ChildProcessError:
                    rpid, status = pid, 1
                if rpid == 0:
                    continue
                reaped = True
                c = live.pop(pid)
                population, lo, hi, _ = c.job
                ok = os.WIFEXITED(status) and os.WEXITSTATUS(status) == 0 \
                    and os.path.exists(c.out)
                if ok:
                    with open(c.out, 'rb') as f:
                        a = pickle.load(f)
                    agg.merge(a)
                    info['per_population'][population] = \
                        info['per_population'].get(population, 0) + a.runs
                else:
                    info['worker_deaths'] += 1
                    w = _wal_read(c.wal)
                    how = 'stalled' if c.killed else (
                        'signal %d' % os.WTERMSIG(status)
                        if os.WIFSIGNALED(status) else
                        'exit %d' % os.WEXITSTATUS(status))
                    if w is None:
                        # died before its first run: retry the chunk once
                        key = (population, -lo - 1)
                        retried[key] = retried.get(key, 0) + 1
                        if retried[key] <= 1:
                            queue.append(c.job)
                        else:
                            info['confirmed_crashes'].append(
                                [population, lo, how + ' before first run'])
                    else:
                        i = w[1]
                        key = (population, i)
                        if hi - lo == 1 and lo == i:
                            # this was already the solo attempt
                            if c.killed:
                                info['confirmed_timeouts'].append(
                                    [population, i])
                            else:
                                info['confirmed_crashes'].append(
                                    [population, i, how])
                        else:
                            info['transient_worker_failures'].append(
                                [population, i, how])
                            if lo < i:
                                queue.append((population, lo, i, False))
                            if i + 1 < hi:
                                queue.append((population, i + 1, hi, False))
                            queue.append((population, i, i + 1, False))
                for path in (c.wal, c.out):
                    try:
                        os.unlink(path)
                    except OSError:
                        pass
            # watchdog: a run that makes no progress for too long.  "Too
            # long" is measured in CPU seconds the worker's process group
            # has burnt since its last sign of progress, so that a loaded
            # machine does not turn slow runs into stalls; wall clock only
            # as a last resort (8x), for a run that neither progresses nor
            # computes.
            now = time.time()
            for pid, c in live.items():
                if c.killed:
                    continue
                w = _wal_read(c.wal)
                last = w[2] if w else c.started
                lim = limit_for(c.job[0])
                if now - last <= lim:
                    c.cpu_mark = None
                    continue
                if now - last > lim * 8:
                    c.killed = True
                    _kill_group(pid)
                    continue
                if now - getattr(c, 'cpu_checked', 0) < 1.0:
                    continue
                c.cpu_checked = now
                cpu = _group_cpu(pid)
                if cpu is None:
                    c.killed = True
                    _kill_group(pid)
                    continue
                if c.cpu_mark is None or c.cpu_mark[0] != last:
                    # first look since the last progress: start counting
                    c.cpu_mark = (last, cpu, now)
                elif cpu - c.cpu_mark[1] > lim * 0.7:
                    c.killed = True
                    _kill_group(pid)
                elif now - c.cpu_mark[2] > 15 and \
                        cpu - c.cpu_mark[1] < 0.2:
                    # neither progress nor computation for 15 s beyond the
                    # limit: blocked (however loaded the machine is, a
                    # runnable process gets some CPU in 15 s)
                    c.killed = True
                    _kill_group(pid)
            if len(info['confirmed_timeouts']) >= 2 and queue is not None \
                    and not info.get('stopped_early'):
                # two runs stall reproducibly: the verdict is in; every
                # further stall would cost a minute of wall clock
                info['stopped_early'] = True
                for pid in live:
                    _kill_group(pid)
                for pid in list(live):
                    try:
                        os.waitpid(pid, 0)
                    except OSError:
                        pass
                live.clear()
                queue = []
                break
            if wall_cap is not None and now - t0 > wall_cap:
                info['timed_out'] = True
                for pid in live:
                    _kill_group(pid)
                for pid in list(live):
                    try:
                        os.waitpid(pid, 0)
                    except OSError:
                        pass
                live.clear()
                queue = []
                break
            if not reaped:
                time.sleep(0.01)
    finally:
        for pid in list(live):
            _kill_group(pid)
            try:
                os.waitpid(pid, 0)
            except OSError:
                pass
        try:
            for fn in os.listdir(wal_dir):
                os.unlink(os.path.join(wal_dir, fn))
            os.rmdir(wal_dir)
        except OSError:
            pass
    info['dead_runs'] = [tuple(x) for x in info['confirmed_timeouts']]
    info['wall_s'] = time.time() - t0
    return agg, info


def write_replay(check, prop, population, i, trace, violation_json, digest,
                 minimised, note=''):
    os.makedirs(REPLAY_DIR, exist_ok=True)
    body = {
        'check': check, 'property': prop, 'verif_seed': base_seed(),
        'population': population, 'run_index': i,
        'violation': violation_json, 'digest': digest,
        'minimised': minimised, 'note': note, 'trace': trace,
    }
    sb = os.environ.get('VERIF_SUBBATCH') or ''
    if sb.startswith('hashseed='):
        body['hashseed'] = sb.split('=', 1)[1]
    elif sb.startswith('pyopt='):
        body['pyopt'] = 1
    elif sb.startswith('pywarn='):
        body['pywarn'] = sb.split('=', 1)[1]
    key = hashlib.sha1(json.dumps([prop, violation_json.get('class'),
                                   trace], sort_keys=True).encode()
                       ).hexdigest()[:12]
    path = os.path.join(REPLAY_DIR, '%s-%s.json' % (prop, key))
    with open(path, 'w') as f:
        json.dump(body, f, indent=1, sort_keys=True)
        f.write('\n')
    return path


def replay_in_fresh_process(check, path, timeout=300):
    """Run `./run <check> --replay <path>` in a fresh interpreter."""
    env = dict(os.environ)
    env.pop('PYTHONHASHSEED', None)
    p = subprocess.run([PY, os.path.join(VERIF, 'run'), check,
                        '--replay', path], capture_output=True, text=True,
                       timeout=timeout, env=env, cwd=VERIF)
    return p.returncode, p.stdout + p.stderr


def write_evidence(prop, tier, level, coverage, assumptions, wall_s,
                   violations):
    os.makedirs(EVIDENCE_DIR, exist_ok=True)
    ev = {
        'property_id': prop, 'tier': tier, 'seed': base_seed(),
        'level': level, 'coverage': coverage, 'assumptions': assumptions,
        'wall_s': round(wall_s, 3), 'violations': violations,
    }
    path = os.path.join(EVIDENCE_DIR, '%s.json' % prop)
    tmp = path + '.tmp'
    with open(tmp, 'w') as f:
        json.dump(ev, f, indent=1, sort_keys=True, default=_json_default)
        f.write('\n')
    os.replace(tmp, path)
    return path


def _json_default(o):
    if isinstance(o, (set, frozenset)):
        return sorted(o)
    if isinstance(o, bytes):
        return o.hex()
    return repr(o)
