"""Seeded generation of World A traces (workload + link script + faults).

Swarm style: every run draws its own configuration - number of connections,
receiver styles, workload mix, which fault kinds are enabled and how dense the
cuts are.  The result is an explicit trace; execution never draws randomness.
"""
import datetime
import struct

from sim import gen, wiremap

REL_CUTS = (0, 1, 4, 6, 7, 8, 9, 11, 12)
FIELD_VALUES = {
    1: [0, 1, 2, 0x7f, 0x80, 0xfe, 0xff],
    2: [0, 1, 2, 3, 0x7fff, 0x8000, 0xfffe, 0xffff, 0x0101],
    4: [0, 1, 2, 3, 4, 5, 7, 8, 0x7f, 0x80, 0xff, 0x100, 0x7fff, 0x8000,
        0xffff, 0x10000, 0x7fffffff, 0x80000000, 0xfffffffe, 0xffffffff] +
       [2**32 - k for k in range(3, 40)],
    8: [0, 1, 0xffffffff, 0x100000000, 2**63 - 1, 2**63, 2**64 - 1,
        253402300800, 253402300800000, 2**62],
}
TAGS = b'tbBsuIilLfdDSATFVx\x00' + bytes([0x41, 0x46, 0x7a, 0xff, 0x01])


def encodable_frame(g, marker, mix, max_body):
    for _ in range(50):
        d = g.frame(marker, mix, max_body)
        try:
            data = gen.encode_frame(d)
        except Exception:
            continue
        return d, data
    d = {'k': 'heartbeat', 'ch': 0}
    return d, gen.encode_frame(d)


TABLE_METHODS = ['Queue.Declare', 'Exchange.Declare', 'Basic.Consume',
                 'Queue.Bind', 'Connection.StartOk', 'Exchange.Bind']


STRING_METHODS = ['Basic.Publish', 'Basic.Deliver', 'Basic.Consume',
                  'Basic.Return', 'Basic.GetOk', 'Queue.Declare',
                  'Queue.Bind', 'Exchange.Declare', 'Exchange.Bind',
                  'Basic.ConsumeOk', 'Queue.DeclareOk', 'Basic.Cancel']


def string_heavy_frame(r, g, marker):
    """A method or header frame whose short strings no other frame of the
    run carries (run-wide distinct names, tags, ids)."""
    from sim.values import to_desc
    for _ in range(20):
        if r.random() < 0.6:
            name = r.choice(STRING_METHODS)
            cls = gen.classes()[name]
            args = {}
            j = 0
            for s_ in cls.__slots__:
                if cls.amqp_type(s_) == 'shortstr' and \
                        g.arg_mode(cls, s_, 'shortstr') != 'fixed':
                    j += 1
                    args[s_] = 'n%d.%d' % (marker, j)
                elif cls.amqp_type(s_) == 'longlong' and \
                        g.arg_mode(cls, s_, 'longlong').endswith('required'):
                    args[s_] = marker
            d = {'k': 'method', 'cls': name, 'ch': g.channel(), 'args': args}
        else:
            props = {}
            for j, s_ in enumerate(('content_type', 'correlation_id',
                                    'reply_to', 'message_id', 'message_type',
                                    'user_id', 'app_id')):
                if r.random() < 0.7:
                    props[s_] = 'p%d.%d' % (marker, j)
            d = {'k': 'header', 'ch': g.channel(), 'body_size': marker,
                 'props': props}
        try:
            return d, gen.encode_frame(d)
        except Exception:
            continue
    d = {'k': 'heartbeat', 'ch': 0}
    return d, gen.encode_frame(d)


_STR_PROPS = ['content_type', 'content_encoding', 'correlation_id',
              'reply_to', 'expiration', 'message_id', 'message_type',
              'user_id', 'app_id']


def alias_header(r, frames):
    """A content header whose property values equal those of an earlier
    header of this connection but sit under different property names of the
    same wire type (content_type='gzip' vs content_encoding='gzip',
    priority=2 vs delivery_mode=2): same value bytes, different flags."""
    hs = [f for f in frames if f['k'] == 'header' and f['props']]
    if not hs:
        return None
    src = r.choice(hs[-6:])
    props = {}
    shift = r.randint(1, len(_STR_PROPS) - 1)
    for name, v in src['props'].items():
        if name in _STR_PROPS:
            new = _STR_PROPS[(_STR_PROPS.index(name) + shift) %
                             len(_STR_PROPS)]
            props[new] = v
        elif name == 'priority' and v in (1, 2):
            props['delivery_mode'] = v
        elif name == 'delivery_mode':
            props['priority'] = v
        else:
            props[name] = v
    if props == src['props']:
        return None
    return dict(src, props=props)


def table_heavy_frame(r, g, marker):
    """A method or header frame whose table has several keys that no other
    frame of the run uses (distinct keys drive per-key state)."""
    from sim.values import to_desc
    t = {}
    for j in range(r.randint(2, 8)):
        t['k%d_%d%s' % (marker, j, r.choice(['', 'x', '\u00e9']))] = \
            r.choice([j, 'v', True, None, [j], {'n%d' % marker: j},
                      [100000 + j, 70000, 2 ** 20], [40000 + j] * 3,
                      [-5, 300, 70000, 2 ** 40]])
    for _ in range(20):
        if r.random() < 0.7:
            name = r.choice(TABLE_METHODS)
            cls = gen.classes()[name]
            tn = [s for s in cls.__slots__ if cls.amqp_type(s) == 'table'][0]
            d = {'k': 'method', 'cls': name, 'ch': g.channel(),
                 'args': {tn: to_desc(t)}}
        else:
            d = {'k': 'header', 'ch': g.channel(), 'body_size': marker,
                 'props': {'headers': to_desc(t)}}
        try:
            return d, gen.encode_frame(d)
        except Exception:
            continue
    d = {'k': 'heartbeat', 'ch': 0}
    return d, gen.encode_frame(d)


def pick_cuts(r, datas, density):
    """Cut positions as [frame, offset] pairs."""
    cuts = []
    n = len(datas)
    if density == 'none':
        return cuts
    if density == 'boundaries':
        return [[k, 0] for k in range(1, n)]
    if density == 'bytewise':
        for k, d in enumerate(datas):
            if len(d) <= 64:
                cuts += [[k, o] for o in range(len(d))]
            else:
                cuts += [[k, o] for o in range(0, 16)]
                cuts += [[k, len(d) - o] for o in range(1, 4)]
        return cuts
    p = {'sparse': 0.3, 'medium': 1.0, 'dense': 3.0}[density]
    for k, d in enumerate(datas):
        m = int(p) + (1 if r.random() < p - int(p) else 0)
        for _ in range(m):
            c = r.random()
            L = len(d)
            if c < 0.35:
                o = r.choice(REL_CUTS)
            elif c < 0.6:
                o = L - r.choice((0, 1, 2, 3))
            elif c < 0.8:
                try:
                    fm = wiremap.walk_frame(d)
                    f = r.choice(fm)
                    o = f[0] + r.choice((0, f[1], 1))
                except Exception:
                    o = r.randint(0, L)
            else:
                o = r.randint(0, L)
            if 0 <= o <= L:
                cuts.append([k, o])
    return cuts


def trailer_bytes(r):
    c = r.random()
    if c < 0.5:
        return r.choice(gen.LOOKALIKES)
    if c < 0.8:
        return bytes(r.getrandbits(8) for _ in range(r.randint(1, 12)))
    return r.choice(gen.LOOKALIKES) + bytes(
        r.getrandbits(8) for _ in range(r.randint(0, 8)))


def corrupt_fault(r, k, data, kinds):
    """One fault aimed at frame k (bytes `data`): explicit byte patches."""
    kind = r.choice(kinds)
    L = len(data)
    try:
        fm = wiremap.walk_frame(data)
    except Exception:
        fm = []
    reframe = r.random() < 0.5

    def aimed_offset():
        if fm and r.random() < 0.7:
            f = r.choice(fm)
            return min(L - 1, f[0] + r.randrange(max(1, f[1])))
        return r.randrange(L)
    if kind == 'flip':
        o = aimed_offset()
        patches = [[o, 1, '%02x' % (data[o] ^ (1 << r.randrange(8)))]]
    elif kind == 'overwrite':
        o = aimed_offset()
        v = r.choice([0x00, 0x7f, 0x80, 0xff, 0xce, r.getrandbits(8),
                      r.getrandbits(8)])
        patches = [[o, 1, '%02x' % v]]
    elif kind == 'insert':
        o = aimed_offset()
        patches = [[o, 0, bytes(r.getrandbits(8) for _ in
                                range(r.randint(1, 4))).hex()]]
    elif kind == 'delete':
        o = aimed_offset()
        patches = [[o, r.randint(1, 4), '']]
    elif kind == 'bad_utf8':
        # invalid UTF-8 inside a short string, long string or table key
        texts = [f for f in fm if f[2] in ('key', 'data') and f[1] > 0]
        if texts:
            f = r.choice(texts)
            o = f[0] + r.randrange(f[1])
        else:
            o = aimed_offset()
        patches = [[o, 1, '%02x' % r.choice([0xff, 0x80, 0xc0, 0xfe, 0xed,
                                             0xf8])]]
    elif kind == 'truncate':
        # payload cut short, envelope rewritten: "buggy peer"
        keep = r.choice([7, 8, 9, 10, 11, 12, 15, 19, 20, 21,
                         r.randint(7, max(7, L - 1))])
        keep = min(keep, L - 1)
        patches = [[keep, L - keep - 1, '']]
        reframe = True
    elif kind == 'field_rewrite':
        fields = [f for f in fm if f[2] in (
            'len1', 'len4', 'table_len', 'array_len', 'key_len', 'flags',
            'tag', 'class_id', 'method_id', 'ftype', 'size', 'scale',
            'timestamp', 'body_size', 'bits', 'weight', 'channel', 'end')]
        if not fields:
            o = r.randrange(L)
            patches = [[o, 1, '%02x' % r.getrandbits(8)]]
        else:
            # prefer inner length / tag / flag fields
            inner = [f for f in fields if f[2] in (
                'len1', 'len4', 'table_len', 'array_len', 'key_len', 'flags',
                'tag', 'scale', 'timestamp')]
            f = r.choice(inner) if inner and r.random() < 0.75 \
                else r.choice(fields)
            off, n, fk = f[0], f[1], f[2]
            if fk == 'tag':
                v = bytes([r.choice(TAGS)])
            else:
                cur = int.from_bytes(data[off:off + n], 'big')
                c = r.random()
                top = (1 << (8 * n)) - 1
                if c < 0.4:
                    x = r.choice(FIELD_VALUES.get(n, [0, 1]))
                elif c < 0.6:
                    x = cur + r.choice((-2, -1, 1, 2, 3, 4, 5, 8))
                elif c < 0.75:
                    x = (L - off) + r.choice((-9, -8, -5, -4, -2, -1, 0, 1))
                elif c < 0.85:
                    x = cur | 1
                else:
                    x = r.getrandbits(8 * n)
                v = (x & top).to_bytes(n, 'big')
            patches = [[off, n, v.hex()]]
            kind = 'field_rewrite:' + fk
    else:
        raise ValueError(kind)
    return {'frame': k, 'kind': kind, 'patches': patches, 'reframe': reframe}


CORRUPT_KINDS = ['flip', 'overwrite', 'insert', 'delete', 'truncate',
                 'bad_utf8', 'field_rewrite', 'field_rewrite',
                 'field_rewrite']


def gen_conn(r, g, population, cfg):
    mix = cfg['mix']
    nframes = r.randint(*cfg['nframes'])
    frames, datas = [], []
    if r.random() < 0.2:
        d = {'k': 'protocol', 'v': [0, 9, 1] if r.random() < 0.5 else
             [r.randint(0, 255) for _ in range(3)]}
        frames.append(d)
        datas.append(gen.encode_frame(d))
    for _ in range(nframes):
        cfg['marker'] += 1
        alias = None
        if frames and r.random() < 0.10:
            alias = alias_header(r, frames)
        if alias is not None:
            # same property VALUES as an earlier header, under other names
            d = alias
            try:
                data = gen.encode_frame(d)
            except Exception:
                d, data = frames[-1], datas[-1]
        elif frames and r.random() < 0.08:
            # the very same frame again (identical bytes back to back)
            d, data = frames[-1], datas[-1]
        elif cfg.get('long') and r.random() < 0.7:
            if r.random() < 0.5:
                d, data = table_heavy_frame(r, g, cfg['marker'])
            else:
                d, data = string_heavy_frame(r, g, cfg['marker'])
        else:
            d, data = encodable_frame(g, cfg['marker'], mix,
                                      cfg['max_body'])
        frames.append(d)
        datas.append(data)
    conn = {'recv': r.choice(cfg['receivers']), 'frames': frames}
    # (no 'mutable_buf' connections: the pinned decoder is specified for
    # bytes and refuses most frames held in a bytearray - DESIGN.md 13)
    density = r.choice(cfg['densities'])
    conn['cuts'] = pick_cuts(r, datas, density)
    conn['lat'] = [r.randint(1, 9) for _ in range(r.randint(1, 5))]
    nd = max(1, len(conn['cuts']))
    conn['stalls'] = sorted({r.randint(0, nd) for _ in range(
        r.choice((0, 0, 1, 2, 4)))}) if 'stall' in cfg['faults'] else []
    if 'trailing' in cfg['faults'] and r.random() < 0.5:
        conn['trailer'] = trailer_bytes(r).hex()
    closes = []
    if 'close' in cfg['faults']:
        for _ in range(r.choice((0, 0, 1, 1, 2, 4))):
            k = r.randrange(len(datas))
            L = len(datas[k])
            c = r.random()
            if c < 0.4:
                o = r.choice(REL_CUTS)
            elif c < 0.6:
                o = L - r.choice((1, 2, 3))
            else:
                o = r.randrange(L)
            if 0 <= o < L:
                closes.append([k, o])
    conn['closes'] = closes
    faults = []
    if population == 'long':
        # a few damaged frames early in a long stream of valid ones
        heavy = r.random() < 0.4
        nf = r.randint(len(datas) // 5, len(datas) // 2) if heavy \
            else r.choice((0, 1, 2, 3))
        for _ in range(nf):
            k = r.randrange(len(datas)) if heavy else \
                r.randrange(max(1, len(datas) // 3))
            if len(datas[k]) >= 8 and not any(f['frame'] == k
                                              for f in faults):
                faults.append(corrupt_fault(r, k, datas[k],
                                            cfg['corrupt_kinds']))
    if population == 'corrupt':
        nf = r.choice((1, 1, 1, 2, 3))
        for _ in range(nf):
            k = r.randrange(len(datas))
            if len(datas[k]) < 8:
                continue
            faults.append(corrupt_fault(r, k, datas[k], cfg['corrupt_kinds']))
    conn['faults'] = faults
    return conn


def gen_random_conn(r):
    """Purely random / header-shaped buffers (controls, and C20 clause 1)."""
    frames = []
    for _ in range(r.randint(1, 6)):
        c = r.random()
        if c < 0.3:
            b = bytes(r.getrandbits(8) for _ in range(r.randint(0, 16)))
        elif c < 0.7:
            # a header with extreme fields, then a plausible or absent rest
            t = r.choice([1, 2, 3, 8, 0, 4, 127, 128, 255, r.getrandbits(8)])
            ch = r.choice([0, 1, 32767, 32768, 65535, r.getrandbits(16)])
            size = r.choice([0, 1, 4, 12, 14, 2**31 - 1, 2**31, 2**32 - 1,
                             r.randint(0, 40)])
            body = bytes(r.getrandbits(8) for _ in range(
                min(size, r.randint(0, 40))))
            b = struct.pack('>BHI', t, ch, size) + body
            if r.random() < 0.6:
                b += b'\xce'
        elif c < 0.85:
            b = b'AMQP' + bytes(r.getrandbits(8)
                                for _ in range(r.randint(0, 6)))
        else:
            b = bytes(r.getrandbits(8) for _ in range(r.randint(17, 300)))
        frames.append({'k': 'raw', 'b': b.hex()})
    datas = [bytes.fromhex(f['b']) for f in frames]
    conn = {'recv': r.choice('AB'), 'frames': frames,
            'cuts': pick_cuts(r, datas, r.choice(
                ['none', 'bytewise', 'medium', 'boundaries'])),
            'lat': [r.randint(1, 5)], 'stalls': [], 'closes': [],
            'faults': []}
    return conn


def gen_sweep_conn(r, g, cfg, max_len):
    """One frame, peer closes after every byte in turn (C07 enumeration)."""
    for _ in range(20):
        cfg['marker'] += 1
        d, data = encodable_frame(g, cfg['marker'], cfg['mix'],
                                  cfg['max_body'])
        if len(data) <= max_len:
            break
    L = len(data)
    if L <= 2048:
        offs = range(L)
    else:
        offs = sorted(set(range(0, 64)) | set(range(L - 64, L)) |
                      set(range(0, L, max(1, L // 256))))
    return {'recv': 'A', 'frames': [d], 'cuts': [], 'lat': [1],
            'stalls': [], 'faults': [],
            'closes': [[0, o] for o in offs], 'sweep': True}


def gen_faultsweep_conn(r, g, cfg, kind, tier):
    """Enumerated single faults on one frame: the connection carries one
    copy of the frame per fault, each copy damaged differently.
    truncsweep: payload cut at EVERY length, envelope rewritten (and raw).
    bytesweep:  EVERY byte overwritten with several values (all 255 other
                values in the thorough tier for short frames)."""
    for _ in range(30):
        cfg['marker'] += 1
        if r.random() < 0.5:
            d, data = table_heavy_frame(r, g, cfg['marker'])
        else:
            d, data = encodable_frame(g, cfg['marker'],
                                      (('method', 3), ('header', 2)), 64)
        if 9 <= len(data) <= (400 if tier == 'quick' else 1500):
            break
    L = len(data)
    frames, faults = [], []

    def add(patches, reframe, label):
        faults.append({'frame': len(frames), 'kind': label,
                       'patches': patches, 'reframe': reframe})
        frames.append(d)
    if kind == 'fieldsweep':
        # every length / flag / tag / id field rewritten to a value set:
        # 1- and 2-byte fields exhaustively (thorough) or densely (quick),
        # 4-byte fields to boundaries, neighbours of the true value and of
        # the remaining length, and "negative" values 2^32-k
        try:
            fm = wiremap.walk_frame(data)
        except Exception:
            fm = []
        for f in fm:
            off, n, fk = f[0], f[1], f[2]
            if fk not in ('len1', 'len4', 'table_len', 'array_len',
                          'key_len', 'flags', 'tag', 'scale', 'size',
                          'class_id', 'method_id', 'bits', 'ftype',
                          'timestamp'):
                continue
            cur = int.from_bytes(data[off:off + n], 'big')
            top = (1 << (8 * n)) - 1
            if n == 1:
                vals = set(range(256)) if tier != 'quick' else \
                    set(range(0, 256, 5)) | {cur ^ 1, cur + 1, cur - 1,
                                             0x7f, 0x80, 0xff}
            elif n == 2:
                vals = set(range(0, 65536, 257 if tier == 'quick' else 61)) \
                    | {0, 1, 2, 3, cur | 1, cur + 1, cur - 1, 0x7fff,
                       0x8000, 0xffff}
            else:
                rem = L - off
                vals = set(range(0, 17)) | \
                    {cur + d for d in range(-8, 9)} | \
                    {rem + d for d in range(-12, 5)} | \
                    {2**31 + d for d in (-2, -1, 0, 1)} | \
                    {2**(8 * n) - k for k in range(1, 65)} | \
                    {0x7f, 0x80, 0xff, 0x100, 0xffff, 0x10000,
                     253402300800, 2**63 - 1, 2**63}
            for v in sorted(x & top for x in vals):
                if v == cur:
                    continue
                for reframe in ((False, True) if n >= 4 else (True,)):
                    add([[off, n, v.to_bytes(n, 'big').hex()]],
                        reframe and fk not in ('size', 'ftype'),
                        'rewrite:' + fk + '@')
    elif kind == 'truncsweep':
        for keep in range(7, L - 1):
            add([[keep, L - keep - 1, '']], True, 'truncate@')
        for keep in range(7, L - 1, 3):
            add([[keep, L - keep, '']], False, 'cut_raw@')
    else:
        vals_all = tier != 'quick' and L <= 31
        for o in range(L):
            cur = data[o]
            if vals_all:
                vals = [v for v in range(256) if v != cur]
            else:
                vals = {0x00, 0xff, 0x80, 0x7f, (cur + 1) & 255,
                        (cur - 1) & 255, cur ^ 0x80, cur | 1,
                        r.getrandbits(8)} - {cur}
            for v in sorted(vals):
                add([[o, 1, '%02x' % v]], r.random() < 0.5 and o >= 7,
                    'overwrite@')
    cap = 8000
    if len(faults) > cap:
        # a long frame with many fields: every k-th fault (deterministic);
        # other runs of the sweep cover other frames
        step = (len(faults) + cap - 1) // cap
        faults = faults[::step]
        for j, f_ in enumerate(faults):
            f_['frame'] = j
        frames = frames[:len(faults)]
    return {'recv': 'A', 'frames': frames, 'cuts': [[k, 0] for k in
                                                    range(1, len(frames))],
            'lat': [1], 'stalls': [], 'closes': [], 'faults': faults}


def distinct_frame(r, g, m):
    """A frame all of whose cacheable parts are run-wide distinct - channel,
    size, short strings, table keys, timestamp, decimal - and which carries
    several kinds of them at once (every operation misses in every cache
    the decoder might keep)."""
    from sim.values import to_desc
    import decimal
    c = r.random()
    table = {'k%d' % m: m * 7919, 'd%d' % m: decimal.Decimal(m).scaleb(
        -(m % 7)), 't%d' % m: datetime.datetime.fromtimestamp(
            1600000000 + m, tz=datetime.timezone.utc)}
    if c < 0.5:
        props = {'message_id': 'm%d' % m, 'correlation_id': 'c%d' % m,
                 'timestamp': to_desc(datetime.datetime.fromtimestamp(
                     1700000000 + m, tz=datetime.timezone.utc))}
        if r.random() < 0.7:
            props['headers'] = to_desc(table)
        if r.random() < 0.3:
            props['priority'] = m % 256
        if r.random() < 0.3:
            props['app_id'] = 'a%d' % (m % 97)
        d = {'k': 'header', 'ch': m % 65536, 'body_size': m, 'props': props}
    elif c < 0.8:
        d = {'k': 'method', 'cls': 'Queue.Declare', 'ch': m % 65536,
             'args': {'queue': 'q%d' % m, 'arguments': to_desc(table)}}
    else:
        d = {'k': 'method', 'cls': 'Basic.Deliver', 'ch': m % 65536,
             'args': {'consumer_tag': 'ct%d' % m, 'delivery_tag': m,
                      'exchange': 'e%d' % (m % 53),
                      'routing_key': 'rk.%d' % m}}
    return d


def gen_capacity(r, g, cfg, check):
    """Threads decoding thousands of frames with run-wide distinct values
    so that every bounded cache the decoder might keep (per string, key,
    header, timestamp, flag word ...) fills, reaches its capacity, flushes
    and wraps around; the schedule advances the threads operation by
    operation and goes lock-step (a switch every few pamqp lines) whenever
    the state watch sees a library container within a few entries of a
    round capacity.  Mirror runs give all threads the same frames, the
    second thread one or two operations behind the first: what one thread
    inserts the other one hits."""
    nthreads = r.choice((2, 2, 2, 3))
    per = r.choice((300, 600, 1200, 1200, 2300, 2300))
    # same : all threads carry the very same frames (what one thread
    #        inserts the other hits; double inserts of one key)
    # twin : same shapes, distinct values (both threads take the same miss
    #        paths side by side, every insert is a new entry)
    # indep: unrelated frames
    mode = r.choice(('same', 'same', 'twin', 'twin', 'indep'))
    stagger = r.choice((0, 1, 1, 2)) if mode == 'same' else 0
    g.max_str = 10
    lists = [[] for _ in range(nthreads)]
    for _ in range(per):
        cfg['marker'] += 1
        m = cfg['marker']
        st = r.getstate()
        lists[0].append(distinct_frame(r, g, m))
        for t in range(1, nthreads):
            if mode == 'same':
                lists[t].append(lists[0][-1])
            elif mode == 'twin' and m % 5 == 0:
                # now and then the very same frame: one thread inserts,
                # the others hit (shifts the phase of the twins' inserts)
                lists[t].append(lists[0][-1])
            elif mode == 'twin':
                after = r.getstate()
                r.setstate(st)
                lists[t].append(distinct_frame(r, g, m + 1000003 * t))
                r.setstate(after)
            else:
                cfg['marker'] += 1
                lists[t].append(distinct_frame(r, g, cfg['marker']))
    if r.random() < 0.5:
        # repeats of recent frames: hit paths next to miss paths
        for _ in range(per // 5):
            k = r.randrange(1, per)
            back = r.randint(1, 3)
            for fl in lists:
                fl.insert(k, fl[max(0, k - back)])
    conns = []
    for t in range(nthreads):
        frames = lists[t]
        if mode == 'same' and t:
            frames = [{'k': 'heartbeat', 'ch': 0}] * (stagger * t) + frames
        datas = [gen.encode_frame(d) for d in frames]
        conns.append({'recv': r.choice('AAB'), 'frames': frames,
                      'cuts': pick_cuts(r, datas, 'boundaries') + (
                          pick_cuts(r, datas, 'sparse')
                          if r.random() < 0.25 else []),
                      'lat': [1], 'stalls': [], 'closes': [], 'faults': []})
    # capacities of interest: only those this history can reach (every
    # operation adds at least one entry of every kind; 'same' threads add
    # the same entries)
    reach = per * (1 if mode == 'same' else nthreads) * 0.9
    cand = [c for c in (16, 32, 64, 100, 128, 128, 256, 256, 500, 512, 512,
                        1000, 1024, 1024, 1024, 2000, 2048, 4096)
            if c <= reach]
    caps = set(r.sample(cand, min(len(cand), r.choice((2, 3, 4)))))
    if 1024 <= reach and r.random() < 0.6:
        caps.add(1024)      # by far the most popular cache size
    caps = sorted(caps)
    return {'world': 'A', 'check': check, 'population': 'capacity',
            'conns': conns, 'mode': mode,
            'explore': {'caps': caps, 'margin': r.choice((2, 3, 4)),
                        'w': r.choice((1, 2, 2)), 'kmax': 16,
                        'max_rounds': 4 * len(caps), 'per_cap': 4,
                        'max_continue': 8},
            'tail': r.choice((0, 4000, 9000)) if check == 'C08' else 0}


def gen_soak(r, check, tier):
    """One long single-threaded history of distinct frames (compact series
    descriptors, expanded by a pure function at execution time)."""
    kinds = ['flagchain', 'strings', 'keys', 'stamps', 'bodies', 'badutf8',
             'badtag', 'deep', 'partial', 'dupkeys']
    w = {k: r.choice((0, 1, 1, 2, 4)) for k in kinds}
    if not any(w.values()):
        w['strings'] = 1
    n = r.choice((6000, 12000, 20000)) if tier == 'quick' else \
        r.choice((20000, 40000, 80000))
    return {'world': 'A', 'check': check, 'population': 'soak',
            'conns': [], 'no_mem_sample': True,
            'soak': {'n': n, 'weights': w, 'a': r.randrange(1, 2**31) | 1,
                     'b': r.randrange(2**31),
                     'chain': r.choice((1, 3, 20, 200)),
                     'chain_low': r.random() < 0.6}}


MIXES = [
    (('method', 5), ('header', 2), ('body', 2), ('heartbeat', 1)),
    (('method', 1),), (('header', 1),), (('body', 1),),
    (('heartbeat', 3), ('method', 1)),
    (('method', 2), ('header', 2), ('body', 2), ('heartbeat', 2),
     ('protocol', 1)),
    (('body', 3), ('heartbeat', 2)),
]


def gen_trace(rng, check, population, tier='quick'):
    r = rng
    big = r.random() < (0.10 if tier == 'quick' else 0.2)
    g = gen.Gen(r, max_depth=r.choice([1, 2, 4, 4]),
                max_str=r.choice([8, 40, 40, 120]), big=big)
    cfg = {
        'mix': r.choice(MIXES),
        'nframes': r.choice([(1, 3), (1, 8), (5, 20), (10, 40)]),
        'receivers': r.choice(['A', 'A', 'B', 'AB', 'AB']),
        'densities': r.choice([
            ['none'], ['boundaries'], ['bytewise'], ['sparse'], ['medium'],
            ['dense'], ['none', 'sparse', 'medium', 'dense', 'bytewise']]),
        'max_body': r.choice([64, 4096, 4096, 131072 if big else 4096]),
        'faults': set(),
        'marker': r.randint(1, 10**6),
        'corrupt_kinds': None,
    }
    for fk in ('stall', 'trailing', 'close'):
        if r.random() < 0.6:
            cfg['faults'].add(fk)
    if population == 'corrupt':
        sub = [k for k in sorted(set(CORRUPT_KINDS)) if r.random() < 0.6] or \
            ['field_rewrite']
        cfg['corrupt_kinds'] = sorted(
            k for k in CORRUPT_KINDS if k in sub)
        cfg['nframes'] = r.choice([(1, 3), (1, 8), (5, 20)])
    if population == 'long':
        # long histories: state that accumulates over many decodes in one
        # process (caches, pools) only shows after hundreds of frames/keys
        g.max_str = 12
        cfg['nframes'] = r.choice([(60, 120), (100, 200)])
        cfg['mix'] = (('method', 6), ('header', 3), ('body', 1),
                      ('heartbeat', 1))
        cfg['max_body'] = 64
        cfg['densities'] = r.choice([['none'], ['boundaries'], ['sparse']])
        cfg['long'] = True
        cfg['corrupt_kinds'] = sorted(set(CORRUPT_KINDS))
    conns = []
    if population == 'random':
        for _ in range(r.randint(1, 3)):
            conns.append(gen_random_conn(r))
    elif population == 'sweep':
        cfg['mix'] = r.choice(MIXES)
        maxlen = 2048 if tier == 'quick' else 140000
        for _ in range(r.randint(1, 3)):
            conns.append(gen_sweep_conn(r, g, cfg, maxlen))
    elif population == 'capacity':
        return gen_capacity(r, g, cfg, check)
    elif population == 'soak':
        return gen_soak(r, check, tier)
    elif population == 'huge_threads':
        # thousands of frames with run-wide distinct channels, sizes, names
        # and timestamps in 2-3 threads that start with the same few frames:
        # bounded caches (1024-entry FIFOs and the like) fill, evict and wrap
        # around several times after the threads have raced on their first
        # entries
        from sim import gen_b
        from sim.values import to_desc
        g.max_str = 10
        nthreads = r.choice((2, 3))
        per = r.randint(500, 900)
        head = []
        for _ in range(3):
            cfg['marker'] += 1
            head.append(string_heavy_frame(r, g, cfg['marker'])[0])
        for t in range(nthreads):
            frames = list(head)
            for j in range(per):
                cfg['marker'] += 1
                m = cfg['marker']
                d = string_heavy_frame(r, g, m)[0]
                d['ch'] = m % 65536
                if d['k'] == 'header' and r.random() < 0.8:
                    d['props']['timestamp'] = to_desc(
                        datetime.datetime.fromtimestamp(
                            1700000000 + (m if r.random() < 0.8
                                          else m - r.randint(1, 60)),
                            tz=datetime.timezone.utc))
                frames.append(d)
            datas = [gen.encode_frame(d) for d in frames]
            conns.append({'recv': r.choice('AB'), 'frames': frames,
                          'cuts': pick_cuts(r, datas, 'sparse'),
                          'lat': [1], 'stalls': [], 'closes': [],
                          'faults': []})
        est = nthreads * per * 350
        d_ = r.randint(2, 8)
        pts = sorted(r.randint(1, max(2, est)) for _ in range(d_))
        return {'world': 'A', 'check': check, 'population': population,
                'conns': conns, 'threaded': True,
                'schedule': [[p_, r.randrange(8)] for p_ in pts],
                'policy': 'pct:%d' % d_,
                'novel': {'every': r.choice([1, 2]),
                          'picks': [r.randrange(8) for _ in range(6)]},
                'exit_picks': [r.randrange(8) for _ in range(4)],
                'first': r.randrange(nthreads)}
    elif population == 'long_threads':
        # long histories in 2-3 threads under PCT-style schedules: one
        # thread is parked at a random line for a long stretch while the
        # others decode hundreds of frames (cache refills, evictions, pool
        # growth happen "behind its back")
        from sim import gen_b
        g.max_str = 12
        cfg['nframes'] = r.choice([(100, 200), (150, 300)])
        cfg['mix'] = (('method', 7), ('header', 3), ('body', 1))
        cfg['long'] = True
        cfg['max_body'] = 32
        cfg['densities'] = [r.choice(['none', 'boundaries', 'sparse'])]
        cfg['faults'] = set()
        cfg['corrupt_kinds'] = sorted(set(CORRUPT_KINDS))
        nthreads = r.choice((2, 2, 3))
        for _ in range(nthreads):
            conns.append(gen_conn(r, g, 'frag', cfg))
        total = sum(len(c['frames']) for c in conns)
        est = total * 350
        d = r.randint(1, 6)
        pts = sorted(r.randint(1, max(2, est)) for _ in range(d))
        return {'world': 'A', 'check': check, 'population': population,
                'conns': conns, 'threaded': True,
                'schedule': [[p_, r.randrange(8)] for p_ in pts],
                'policy': 'pct:%d' % d,
                'exit_picks': [r.randrange(8) for _ in range(4)],
                'first': r.randrange(nthreads)}
    elif population == 'threads':
        # every connection is a real thread (producer + receiver); few
        # method classes per run so that threads meet in the same code
        from sim import gen_b
        g.method_pool = r.sample(sorted(gen.classes()), r.choice([1, 2, 3, 6]))
        cfg['nframes'] = r.choice([(1, 3), (2, 6), (4, 12)])
        cfg['max_body'] = 64
        cfg['corrupt_kinds'] = sorted(set(CORRUPT_KINDS))
        if r.random() < 0.3:
            cfg['faults'].discard('close')
        nthreads = r.choice((2, 2, 3, 4))
        for _ in range(nthreads):
            conns.append(gen_conn(r, g, 'frag' if check != 'C09'
                                  else r.choice(['frag', 'corrupt']), cfg))
        mirror = r.random() < 0.4
        if mirror:
            # all connections carry the same frames: identical calls meet
            # in the same first-time code paths at the same time
            for c_ in conns[1:]:
                c_['frames'] = list(conns[0]['frames'])
                c_['faults'] = [dict(f_) for f_ in conns[0]['faults']]
                c_['cuts'] = [list(x) for x in conns[0]['cuts']]
                c_['closes'] = []
        if r.random() < 0.10:
            # very deep (but decodable) tables in every thread at once: depth
            # bookkeeping that is not per call shows when two deep decodes
            # overlap
            from sim.values import to_desc
            depth = r.choice((120, 200, 240))
            for c_ in conns:
                dd = {'k': 'method', 'cls': 'Queue.Declare',
                      'ch': g.channel(),
                      'args': {'queue': 'deep', 'arguments': {
                          'deep': [depth, cfg['marker']]}}}
                for _ in range(r.choice((1, 2))):
                    c_['frames'].insert(r.randrange(len(c_['frames']) + 1),
                                        dd)
                c_['cuts'] = []
                c_['closes'] = []
                c_['faults'] = []
        est = sum(len(c['frames']) for c in conns) * 400
        sched_list, policy = gen_b.gen_schedule(r, nthreads, est)
        tr = {'world': 'A', 'check': check, 'population': population,
              'conns': conns, 'threaded': True, 'schedule': sched_list,
              'policy': policy,
              'exit_picks': [r.randrange(8) for _ in range(4)],
              'first': r.randrange(nthreads)}
        if mirror or r.random() < 0.6:
            tr['novel'] = {'every': r.choice([1, 1, 2, 3, 5]),
                           'picks': [r.randrange(8) for _ in range(6)]}
        return tr
    elif population in ('truncsweep', 'bytesweep', 'fieldsweep'):
        conns.append(gen_faultsweep_conn(r, g, cfg, population, tier))
    elif population == 'long':
        for _ in range(r.choice((1, 2, 3))):
            conns.append(gen_conn(r, g, 'long', cfg))
    else:
        for _ in range(r.choice((1, 1, 2, 3, 4))):
            conns.append(gen_conn(r, g, population, cfg))
    tr = {'world': 'A', 'check': check, 'population': population,
          'conns': conns}
    if population in ('frag', 'sweep', 'random') and r.random() < 0.3:
        # the peer closes a few bytes into a very large body frame
        virt = []
        for _ in range(r.randint(1, 4)):
            n = r.choice([0, 1, 2, 7, 8, 9, 64, r.randint(0, 600)])
            size = r.choice([2**31 - 1, 2**31, 2**31 + 5, 2**32 - 1,
                             2**32 - 9, 2**24, n, n + 1, n + 7,
                             r.randint(n, 2**32 - 1)])
            if size < n:
                continue
            c = r.random()
            have = bytes(r.getrandbits(8) for _ in range(n)) if c < 0.6 \
                else b'\xce' * n
            virt.append({'ch': r.choice([0, 1, 65535, r.getrandbits(16)]),
                         'size': size, 'have': have.hex()})
        tr['virtual'] = virt
    if r.random() < 0.15:
        tr['debug_log'] = True
        if r.random() < 0.4:
            tr['log_reenter'] = True   # the log handler uses pamqp itself
    if population in ('truncsweep', 'bytesweep', 'fieldsweep'):
        tr['mem_all'] = True   # enumerated faults: measure every decode
    return tr
