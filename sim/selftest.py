"""Self-tests of the machinery itself (DESIGN.md section 9).

determinism: for every check, the same VERIF_SEED is executed in fresh
interpreters under PYTHONHASHSEED {0, 12345} x worker counts {1, 16}; the
per-run event-log digests of the first 64 runs of every population must be
identical in all four executions.

sensitivity: every patch in /verif/mutants/<PROP>.<name>.diff (each compiles
and passes the pinned 846 tests, see mutants/make_mutants.py) is applied to a
scratch copy of /repo; the property's quick check must exit 1 with a
VIOLATION line and a replay file that reproduces in a fresh interpreter.
NEG.* patches are behaviour-preserving refactorings: all nine checks must
stay silent on them.
"""
import glob
import json
import os
import shutil
import subprocess
import sys
import tempfile
import time

from sim import core

CHECKS = ['C06', 'C07', 'C08', 'C09', 'C11', 'C12', 'C15', 'C16', 'C20']
RUN = os.path.join(core.VERIF, 'run')


def _run_check(check, env_extra, tier='quick', timeout=1800):
    env = dict(os.environ)
    env.update(env_extra)
    p = subprocess.run([sys.executable, RUN, check, tier],
                       capture_output=True, text=True, env=env,
                       cwd=core.VERIF, timeout=timeout)
    return p.returncode, p.stdout + p.stderr


def determinism(argv):
    scale = '0.05' if 'thorough' not in argv else '0.5'
    checks = [a for a in argv if a in CHECKS] or CHECKS
    bad = 0
    for check in checks:
        sets = []
        for hs, workers in (('0', '16'), ('12345', '16'), ('0', '1'),
                            ('12345', '3')):
            tmp = tempfile.mkdtemp(prefix='verif-det-')
            try:
                rc, out = _run_check(check, {
                    'PYTHONHASHSEED': hs, 'VERIF_WORKERS': workers,
                    'VERIF_SCALE': scale, 'VERIF_EVIDENCE_DIR': tmp,
                    'VERIF_REPLAY_DIR': tmp})
                if rc != 0:
                    print('DETERMINISM %s: check exited %d under hashseed=%s '
                          'workers=%s\n%s' % (check, rc, hs, workers,
                                              out[-1500:]))
                    bad += 1
                    sets.append(None)
                    continue
                ev = json.load(open(os.path.join(tmp, check + '.json')))
                sets.append(ev['coverage']['digest_sample'])
            finally:
                shutil.rmtree(tmp, ignore_errors=True)
        ok = all(s is not None and s == sets[0] for s in sets)
        print('DETERMINISM %s: %d digests x 4 executions (hashseed 0/12345, '
              'workers 16/1/3): %s' % (check, len(sets[0] or ()),
                                       'identical' if ok else 'DIFFER'))
        if not ok:
            bad += 1
            for s in sets[1:]:
                if s is not None and sets[0] is not None:
                    diff = sorted(set(s) ^ set(sets[0]))[:6]
                    if diff:
                        print('   e.g. %r' % diff)
    return 2 if bad else 0


def _scratch_tree(patch):
    tmp = tempfile.mkdtemp(prefix='verif-mut-')
    tree = os.path.join(tmp, 'tree')
    shutil.copytree('/repo', tree, ignore=shutil.ignore_patterns(
        '.git', '__pycache__', '*.pyc', '.pytest_cache'))
    p = subprocess.run(['git', 'apply', '--unsafe-paths', '--directory=' +
                        tree, patch], capture_output=True, text=True,
                       cwd='/')
    if p.returncode != 0:
        # not a git repo there: fall back to patch(1)
        p = subprocess.run(['patch', '-p1', '-s', '-i', patch], cwd=tree,
                           capture_output=True, text=True)
    if p.returncode != 0:
        shutil.rmtree(tmp, ignore_errors=True)
        raise RuntimeError('cannot apply %s: %s' % (patch, p.stderr +
                                                    p.stdout))
    return tmp, tree


def _one_patch(patch, prop, name, workers):
    tmp, tree = _scratch_tree(patch)
    t0 = time.time()
    try:
        rdir = os.path.join(tmp, 'out')
        os.makedirs(rdir)
        envx = {'PAMQP_SRC': tree, 'VERIF_EVIDENCE_DIR': rdir,
                'VERIF_REPLAY_DIR': rdir, 'PYTHONPATH': ''}
        if workers:
            envx['VERIF_WORKERS'] = str(workers)
        if prop == 'NEG':
            alarms = []
            if os.environ.get('VERIF_NEG_SCALE'):
                # (a full-size run of all nine checks per control takes
                # twenty minutes; the scale used is recorded in the result)
                envx['VERIF_SCALE'] = os.environ['VERIF_NEG_SCALE']
            for check in CHECKS:
                rc, out = _run_check(check, envx)
                if rc != 0:
                    alarms.append((check, rc, [
                        ln for ln in out.splitlines()
                        if 'VIOLATION' in ln or 'HARNESS' in ln][:2]))
            ok = not alarms
            print('SENSITIVITY %-48s negative control: %s (%.0fs)' % (
                name, 'silent on all 9 checks' if ok else
                'ALARM %r' % alarms, time.time() - t0))
            sys.stdout.flush()
            return {'mutant': name, 'kind': 'negative', 'ok': ok,
                    'alarms': alarms,
                    'scale': os.environ.get('VERIF_NEG_SCALE', '1')}
        rc, out = _run_check(prop, envx)
        vio = [ln for ln in out.splitlines() if ln.startswith('VIOLATION')]
        ok = rc == 1 and bool(vio)
        detail = ''
        if ok:
            i = out.splitlines().index(vio[0])
            detail = ' | '.join(
                x.strip() for x in out.splitlines()[i + 1:i + 3])
        print('SENSITIVITY %-48s %s: %s (%.0fs) %s' % (
            name, prop, 'caught' if ok else 'MISSED rc=%d' % rc,
            time.time() - t0, detail[:200]))
        if not ok:
            print('   ' + '\n   '.join(out.splitlines()[-6:]))
        sys.stdout.flush()
        return {'mutant': name, 'property': prop, 'ok': ok,
                'detail': detail[:300]}
    finally:
        shutil.rmtree(tmp, ignore_errors=True)


def sensitivity(argv):
    """./run selftest-sensitivity [-jN] [name-or-property ...]"""
    from concurrent.futures import ThreadPoolExecutor
    jobs = 1
    for a in argv:
        if a.startswith('-j'):
            jobs = max(1, int(a[2:]))
    only = [a for a in argv if not a.startswith('-')]
    patches = sorted(glob.glob(os.path.join(core.VERIF, 'mutants',
                                            '*.diff')))
    patches += sorted(glob.glob(os.path.join(core.VERIF, 'seeded', '*',
                                             'patch.diff')))
    todo = []
    for patch in patches:
        if '/seeded/' in patch:
            meta = json.load(open(os.path.join(os.path.dirname(patch),
                                               'meta.json')))
            prop = meta['property']
            name = 'seeded/' + os.path.basename(os.path.dirname(patch))
        else:
            base = os.path.basename(patch)
            prop, name = base.split('.', 1)[0], base[:-5]
        if only and not any(o in name or o == prop for o in only):
            continue
        todo.append((patch, prop, name))
    workers = max(1, (os.cpu_count() or 16) // jobs) if jobs > 1 else 0
    with ThreadPoolExecutor(jobs) as ex:
        results = list(ex.map(lambda t: _one_patch(t[0], t[1], t[2],
                                                   workers), todo))
    failures = sum(1 for r in results if not r['ok'])
    out = os.path.join(core.VERIF, 'evidence', 'sensitivity.json')
    if not only:
        with open(out, 'w') as f:
            json.dump({'results': results, 'failures': failures}, f,
                      indent=1)
    print('SENSITIVITY summary: %d mutants, %d not as expected' % (
        len(results), failures))
    return 1 if failures else 0
