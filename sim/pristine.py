"""Pristine reference: "the result the call gives in a fresh interpreter".

A server process imports pamqp and the harness, and then never calls the
library.  For every requested operation and each value of the legacy switch
it forks; the child sets the switch through the public function, evaluates
the one operation under TZ=UTC and writes the canonical result to a pipe.
So every reference result comes from an interpreter state in which no other
library call has ever run.

Client side: Pristine(n_servers).results(ops) -> {op_key: {'F': r, 'T': r}}
"""
import json
import os
import subprocess
import sys
import threading

VERIF = os.path.dirname(os.path.dirname(os.path.abspath(__file__)))


def _child_eval(op, switch, wfd):
    # in the forked child: one library call, then exit
    try:
        from sim import lib, ops
        if switch:
            lib.encode.support_deprecated_rabbitmq(True)
        res, _, _ = ops.eval_self_contained(op)
        data = json.dumps(res).encode()
    except BaseException as e:  # noqa
        data = json.dumps(['HARNESS', repr(e)]).encode()
    try:
        os.write(wfd, data)
    finally:
        os._exit(0)


def _eval_forked(op, switch):
    r, w = os.pipe()
    pid = os.fork()
    if pid == 0:
        os.close(r)
        _child_eval(op, switch, w)
    os.close(w)
    chunks = []
    while True:
        b = os.read(r, 1 << 16)
        if not b:
            break
        chunks.append(b)
    os.close(r)
    os.waitpid(pid, 0)
    try:
        return json.loads(b''.join(chunks).decode())
    except Exception:
        return ['HARNESS', 'child produced no result']


def serve():
    """Server main loop (runs in its own interpreter)."""
    import logging
    import time
    logging.disable(logging.CRITICAL)
    os.environ['TZ'] = 'UTC'
    time.tzset()
    sys.path.insert(0, VERIF)
    from sim import lib, ops  # noqa: F401  (import only, never call)
    out = sys.stdout
    for line in sys.stdin:
        line = line.strip()
        if not line:
            continue
        req = json.loads(line)
        results = []
        for op in req['ops']:
            results.append({'F': _eval_forked(op, False),
                            'T': _eval_forked(op, True)})
        out.write(json.dumps(results) + '\n')
        out.flush()


class Pristine:
    def __init__(self, n_servers=8):
        self.n = n_servers
        self.procs = []
        env = dict(os.environ, PYTHONHASHSEED='0', TZ='UTC',
                   PYTHONDONTWRITEBYTECODE='1')
        for _ in range(n_servers):
            p = subprocess.Popen(
                [sys.executable, '-c',
                 'import sys; sys.path.insert(0, %r); '
                 'from sim import pristine; pristine.serve()' % VERIF],
                stdin=subprocess.PIPE, stdout=subprocess.PIPE, text=True,
                env=env, cwd=VERIF)
            self.procs.append(p)

    def results(self, ops_list):
        from sim.ops import op_key
        out = {}
        shards = [ops_list[i::self.n] for i in range(self.n)]
        answers = [None] * self.n

        def ask(i):
            if not shards[i]:
                answers[i] = []
                return
            p = self.procs[i]
            # batches of 200 keep pipe buffers small
            res = []
            for j in range(0, len(shards[i]), 200):
                p.stdin.write(json.dumps({'ops': shards[i][j:j + 200]})
                              + '\n')
                p.stdin.flush()
                line = p.stdout.readline()
                if not line:
                    raise RuntimeError('pristine server died')
                res.extend(json.loads(line))
            answers[i] = res
        ts = [threading.Thread(target=ask, args=(i,)) for i in range(self.n)]
        for t in ts:
            t.start()
        for t in ts:
            t.join()
        for i in range(self.n):
            if answers[i] is None:
                raise RuntimeError('pristine server %d failed' % i)
            for op, r in zip(shards[i], answers[i]):
                for sw in 'FT':
                    if r[sw] and r[sw][0] == 'HARNESS':
                        raise RuntimeError('pristine evaluation failed: %r'
                                           % (r[sw],))
                out[op_key(op)] = r
        return out

    def close(self):
        for p in self.procs:
            try:
                p.stdin.close()
            except Exception:
                pass
        for p in self.procs:
            try:
                p.wait(timeout=10)
            except Exception:
                p.kill()
        self.procs = []
