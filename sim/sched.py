"""Baton-passing scheduler over real threads (used by World A's threaded
population; World B has the same logic inline with its cancel faults).

Exactly one thread holds the baton.  `point(code, line)` is called before
every pamqp source line the running thread executes (sys.monitoring LINE
callback installed by sim.world_b.install) and at operation boundaries
(code is None).  Where the baton moves is decided by the explicit trace:

  schedule : [[global_step, pick], ...]   switch when the step count is reached
  novel    : {'every': k, 'picks': [...]} additionally switch at every k-th
             pamqp line that this run executes for the first time (rare
             paths - lazy initialisation, cache refills, error branches - are
             exactly the lines that are new late in a run)
  exit_picks, first

Nothing here draws randomness or reads a clock.
"""
import os
import threading


class AbortRun(BaseException):
    pass


class Baton:
    def __init__(self, n, trace, log):
        self.n = n
        self.schedule = [list(x) for x in trace.get('schedule', [])]
        self.sched_i = 0
        self.exit_picks = trace.get('exit_picks') or [0]
        self.exit_i = 0
        self.first = trace.get('first', 0) % max(1, n)
        self.novel = trace.get('novel') or None
        self.novel_seen = set()
        self.novel_n = 0
        self.novel_i = 0
        self.finished = [False] * n
        self.sems = [threading.Semaphore(0) for _ in range(n)]
        self.main_sem = threading.Semaphore(0)
        self.step = 0
        self.current = self.first
        self.abort = False
        self.errors = []
        self.log = log          # callable(*event)
        self.switches = 0
        self.switch_sigs = []

    def point(self, code, line):
        if self.abort:
            raise AbortRun()
        self.step += 1
        tid = self.current
        pick = None
        sch = self.schedule
        if self.sched_i < len(sch) and self.step >= sch[self.sched_i][0]:
            pick = sch[self.sched_i][1]
            self.sched_i += 1
        if code is not None and self.novel is not None:
            key = (code.co_filename, line)
            if key not in self.novel_seen:
                self.novel_seen.add(key)
                self.novel_n += 1
                if self.novel_n % self.novel['every'] == 0 and pick is None:
                    picks = self.novel['picks']
                    pick = picks[self.novel_i % len(picks)]
                    self.novel_i += 1
        if pick is None:
            return
        others = [t for t in range(self.n)
                  if t != tid and not self.finished[t]]
        if not others:
            return
        target = others[pick % len(others)]
        where = (os.path.basename(code.co_filename), line) \
            if code is not None else ('op-boundary', 0)
        self.log('switch', tid, target, where)
        self.switches += 1
        self.switch_sigs.append((tid, target, where))
        self.current = target
        self.sems[target].release()
        self.sems[tid].acquire()
        if self.abort:
            raise AbortRun()

    def lock_yield(self, owner_ident=None):
        """The running thread waits for a library lock held by a parked
        thread: pass the baton on, round robin."""
        if self.abort:
            raise AbortRun()
        tid = self.current
        others = [t for t in range(self.n)
                  if t != tid and not self.finished[t]]
        if not others:
            raise RuntimeError('library lock held by a finished thread')
        self.lock_rr = getattr(self, 'lock_rr', 0) + 1
        target = others[self.lock_rr % len(others)]
        for t_, i_ in getattr(self, 'idents', {}).items():
            if i_ == owner_ident and t_ in others:
                target = t_   # the thread that holds the lock
        self.log('lock-wait', tid, target)
        self.current = target
        self.sems[target].release()
        self.sems[tid].acquire()
        if self.abort:
            raise AbortRun()

    def _worker(self, tid, body):
        self.sems[tid].acquire()
        if not hasattr(self, 'idents'):
            self.idents = {}
        self.idents[tid] = threading.get_ident()
        try:
            if not self.abort:
                body(tid)
        except AbortRun:
            pass
        except BaseException as e:
            import traceback
            self.errors.append((type(e).__name__, repr(e),
                                traceback.format_exc()[-1200:]))
            self.abort = True
        finally:
            self.finished[tid] = True
            others = [t for t in range(self.n) if not self.finished[t]]
            if others:
                pick = self.exit_picks[self.exit_i % len(self.exit_picks)]
                self.exit_i += 1
                target = others[pick % len(others)]
                self.log('exit', tid, target)
                self.current = target
                self.sems[target].release()
            else:
                self.log('exit', tid, -1)
                self.main_sem.release()

    def run(self, bodies):
        threads = [threading.Thread(target=self._worker, args=(t, bodies[t]),
                                    name='sim-%d' % t, daemon=True)
                   for t in range(self.n)]
        for t in threads:
            t.start()
        self.sems[self.first].release()
        self.main_sem.acquire()
        for t in threads:
            t.join(5)
