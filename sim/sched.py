"""Baton-passing scheduler over real threads (used by World A's threaded
population; World B has the same logic inline with its cancel faults).

Exactly one thread holds the baton.  `point(code, line)` is called before
every pamqp source line the running thread executes (sys.monitoring LINE
callback installed by sim.world_b.install) and at operation boundaries
(code is None).  Where the baton moves is decided by the explicit trace:

  schedule : [[global_step, pick], ...]   switch when the step count is reached
  novel    : {'every': k, 'picks': [...]} additionally switch at every k-th
             pamqp line that this run executes for the first time (rare
             paths - lazy initialisation, cache refills, error branches - are
             exactly the lines that are new late in a run)
  exit_picks, first
  lockstep : {'burst': [b0, b1, ..]}      while `lock_on` is set (by the run,
             at operation boundaries, from the state watch: some library
             container is about to reach a round capacity) thread t runs
             b[t] pamqp lines, then the next thread in cyclic order runs
  park     : {'thread': t, 'k': k, 'names': [...]}   thread t is parked just
             before the k-th line it executes inside a function that refers
             to one of `names` (the library's run-time containers, from the
             state watch); every other thread then runs to the end of its
             window, in cyclic order; then t resumes.  k = None: no parking,
             the threads run one after the other starting with `first`.
             With 'rv': m (rendezvous) the next thread only runs until it
             is about to execute the SAME source line for the m-th time;
             then t executes that one line, then the other thread runs to
             the end of its window, then t: both threads have passed
             whatever check precedes the line before either executes it.
  rr_ops   : true                          switch to the next thread in cyclic
             order at every operation boundary (threads advance op by op)

Nothing here draws randomness or reads a clock.
"""
import os
import threading


class AbortRun(BaseException):
    pass


class Baton:
    def __init__(self, n, trace, log):
        self.n = n
        self.schedule = [list(x) for x in trace.get('schedule', [])]
        self.sched_i = 0
        self.exit_picks = trace.get('exit_picks') or [0]
        self.exit_i = 0
        self.first = trace.get('first', 0) % max(1, n)
        self.novel = trace.get('novel') or None
        self.novel_seen = set()
        self.novel_n = 0
        self.novel_i = 0
        self.finished = [False] * n
        self.sems = [threading.Semaphore(0) for _ in range(n)]
        self.main_sem = threading.Semaphore(0)
        self.step = 0
        self.current = self.first
        self.abort = False
        self.errors = []
        self.log = log          # callable(*event)
        self.switches = 0
        self.switch_sigs = []
        self.lockstep = trace.get('lockstep') or None
        self.lock_on = False
        self.ls_n = 0
        self.rr_ops = bool(trace.get('rr_ops'))
        self.ls_switches = 0
        self.park = trace.get('park') or None
        self.park_done = False
        self.park_names = frozenset((self.park or {}).get('names') or ())
        self.relevant = [0] * n      # per thread: lines in such functions
        self._rel_cache = {}
        self.rv = (self.park or {}).get('rv')
        self.rv_state = 0
        self.rv_loc = None
        self.rv_arrivals = 0
        self.rv_other = None

    def point(self, code, line):
        if self.abort:
            raise AbortRun()
        self.step += 1
        tid = self.current
        pick = None
        sch = self.schedule
        if self.sched_i < len(sch) and self.step >= sch[self.sched_i][0]:
            pick = sch[self.sched_i][1]
            self.sched_i += 1
        if code is not None and self.novel is not None:
            key = (code.co_filename, line)
            if key not in self.novel_seen:
                self.novel_seen.add(key)
                self.novel_n += 1
                if self.novel_n % self.novel['every'] == 0 and pick is None:
                    picks = self.novel['picks']
                    pick = picks[self.novel_i % len(picks)]
                    self.novel_i += 1
        if self.park is not None and code is not None:
            rel = self._rel_cache.get(code)
            if rel is None:
                names = self.park_names
                rel = bool(names and (names.intersection(code.co_names) or
                                      names.intersection(code.co_freevars)))
                self._rel_cache[code] = rel
            if rel:
                self.relevant[tid] += 1
                if not self.park_done and tid == self.park['thread'] and \
                        self.relevant[tid] == self.park['k']:
                    self.park_done = True
                    pick = -1
                    if self.rv:
                        self.rv_state = 1
                        self.rv_loc = (code.co_filename, line)
                elif self.rv_state == 1 and tid != self.park['thread'] and \
                        (code.co_filename, line) == self.rv_loc:
                    self.rv_arrivals += 1
                    if self.rv_arrivals == self.rv:
                        # both threads stand before the same line
                        self.rv_state = 2
                        self.rv_other = tid
                        pick = -2
        if self.rv_state == 2 and tid == self.park['thread'] and \
                pick is None:
            # the parked thread has executed the line: now the other
            self.rv_state = 3
            pick = -3
        if pick is None:
            if code is None:
                if not self.rr_ops:
                    return
            elif self.lock_on and self.lockstep is not None:
                self.ls_n += 1
                b = self.lockstep.get('burst') or [1]
                if self.ls_n < b[tid % len(b)]:
                    return
                self.ls_n = 0
                self.ls_switches += 1
            else:
                return
            pick = -1
        others = [t for t in range(self.n)
                  if t != tid and not self.finished[t]]
        if not others:
            return
        if pick == -1:
            # next thread in cyclic order
            later = [t for t in others if t > tid]
            target = later[0] if later else others[0]
        elif pick == -2:
            target = self.park['thread']
            if target not in others:
                return
        elif pick == -3:
            target = self.rv_other
            if target not in others:
                return
        else:
            target = others[pick % len(others)]
        where = (os.path.basename(code.co_filename), line) \
            if code is not None else ('op-boundary', 0)
        self.log('switch', tid, target, where)
        self.switches += 1
        self.switch_sigs.append((tid, target, where))
        self.current = target
        self.sems[target].release()
        self.sems[tid].acquire()
        if self.abort:
            raise AbortRun()

    def lock_yield(self, owner_ident=None):
        """The running thread waits for a library lock held by a parked
        thread: pass the baton on, round robin."""
        if self.abort:
            raise AbortRun()
        tid = self.current
        others = [t for t in range(self.n)
                  if t != tid and not self.finished[t]]
        if not others:
            from sim import lib
            raise lib.Deadlock('library lock held by a thread that has '
                               'finished')
        self.lock_rr = getattr(self, 'lock_rr', 0) + 1
        target = others[self.lock_rr % len(others)]
        for t_, i_ in getattr(self, 'idents', {}).items():
            if i_ == owner_ident and t_ in others:
                target = t_   # the thread that holds the lock
        self.log('lock-wait', tid, target)
        self.current = target
        self.sems[target].release()
        self.sems[tid].acquire()
        if self.abort:
            raise AbortRun()

    def _worker(self, tid, body):
        self.sems[tid].acquire()
        if not hasattr(self, 'idents'):
            self.idents = {}
        self.idents[tid] = threading.get_ident()
        try:
            if not self.abort:
                body(tid)
        except AbortRun:
            pass
        except BaseException as e:
            import traceback
            self.errors.append((type(e).__name__, repr(e),
                                traceback.format_exc()[-1200:]))
            self.abort = True
        finally:
            self.finished[tid] = True
            others = [t for t in range(self.n) if not self.finished[t]]
            if others and self.park is not None:
                # the parked thread resumes last; the rest in cyclic order
                rest = [t for t in others if t != self.park['thread']] \
                    if self.park_done else others
                rest = rest or others
                later = [t for t in rest if t > tid]
                target = later[0] if later else rest[0]
                self.log('exit', tid, target)
                self.current = target
                self.sems[target].release()
            elif others:
                pick = self.exit_picks[self.exit_i % len(self.exit_picks)]
                self.exit_i += 1
                target = others[pick % len(others)]
                self.log('exit', tid, target)
                self.current = target
                self.sems[target].release()
            else:
                self.log('exit', tid, -1)
                self.main_sem.release()

    def run(self, bodies):
        threads = [threading.Thread(target=self._worker, args=(t, bodies[t]),
                                    name='sim-%d' % t, daemon=True)
                   for t in range(self.n)]
        for t in threads:
            t.start()
        self.sems[self.first].release()
        self.main_sem.acquire()
        for t in threads:
            t.join(5)
