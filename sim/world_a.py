"""World A - the wire.  A simulated byte-stream link between a producer that
encodes frames with the real pamqp encoder and receivers that decode with the
real pamqp decoder, the way socket clients do.

One run = execute(trace): a pure function of the explicit trace and the code
under test.  The trace says which frames each connection carries, how the
stream is damaged (faults), where segments end (cuts), where the peer closes
(closes: EOF after an arbitrary byte, connection restarted), when a receiver
is woken without new bytes (stalls), what follows the last frame (trailer) and
with which virtual latencies the deliveries of the connections interleave.

Positions are relative to frames: [frame_index, offset_in_frame]; frame_index
== len(frames) addresses the trailer.  That keeps a trace meaningful while the
shrinker drops frames.
"""
import hashlib
import heapq
import tracemalloc

from sim import lib, gen, wiremap, core
from sim.meter import METER
from sim.values import canon_frame, canon_exc, frame_kind

UME = lib.exceptions.UnmarshalingException

STEP_BASE = 5000
STEP_PER_BYTE = 64
STEP_CAP_OTHER = 150000
MEM_BASE = 4 * 1024 * 1024
MEM_PER_BYTE = 1024
KIND_OF_TYPE = {1: 'method', 2: 'header', 3: 'body', 8: 'heartbeat'}


class Violation(Exception):
    def __init__(self, prop, oracle, cls, detail, buf=None):
        Exception.__init__(self, '%s/%s %s' % (prop, oracle, detail))
        self.prop = prop
        self.oracle = oracle
        self.cls = cls          # violation class key (stable under shrinking)
        self.detail = detail
        self.buf = buf

    def to_json(self):
        d = {'property': self.prop, 'oracle': self.oracle,
             'class': self.cls, 'detail': self.detail}
        if self.buf is not None:
            b = bytes(self.buf)
            d['buffer_len'] = len(b)
            d['buffer_hex'] = b.hex() if len(b) <= 4096 else \
                b[:2048].hex() + '...' + b[-64:].hex()
        return d


class FrameInfo:
    __slots__ = ('idx', 'desc', 'data', 'damaged', 'start', 'end', 'ref',
                 'kind', 'fault_kinds', 'encodable')


class Incarnation:
    """One TCP connection's receive side."""
    __slots__ = ('buf', 'ptr', 'tainted', 'reset', 'delivered', 'at_tail')

    def __init__(self, ptr):
        self.buf = b''
        self.ptr = ptr
        self.tainted = False
        self.reset = False
        self.delivered = 0
        self.at_tail = False


class Conn:
    pass


def harness_complete(buf):
    """The harness's own header peek (never pamqp's)."""
    if buf[:4] == b'AMQP':
        return len(buf) >= 8
    if len(buf) < 7:
        return False
    return len(buf) >= int.from_bytes(buf[3:7], 'big') + 8


class PristineRefs:
    """A helper process forked at the very start of a run, before the run
    has made any library call: it later decodes every undamaged frame of the
    run in isolation, in REVERSE order of sending.  If a decode depends on
    what was decoded before it, this order and the sending order disagree."""

    def __init__(self):
        import os
        import pickle
        self.r1, self.w1 = os.pipe()
        self.r2, self.w2 = os.pipe()
        self.pid = os.fork()
        if self.pid == 0:
            code = 1
            try:
                os.close(self.w1)
                os.close(self.r2)
                with os.fdopen(self.r1, 'rb') as f:
                    req = f.read()
                out = []
                if req:
                    datas = pickle.loads(req)
                    METER.install()
                    res = {}
                    for d in reversed(datas):
                        if d in res:
                            continue
                        st, val, _ = METER.run(lib.frame.unmarshal, d,
                                               STEP_CAP_OTHER)
                        ref = None
                        if st == 'ok':
                            try:
                                n, ch, f = val
                                if n == len(d):
                                    ref = (n, ch, canon_frame(f))
                            except Exception:
                                ref = None
                        res[d] = ref
                    out = [res[d] for d in datas]
                with os.fdopen(self.w2, 'wb') as f:
                    f.write(pickle.dumps(out))
                code = 0
            finally:
                os._exit(code)
        os.close(self.r1)
        os.close(self.w2)

    def ask(self, datas):
        import os
        import pickle
        with os.fdopen(self.w1, 'wb') as f:
            f.write(pickle.dumps(list(datas)))
        with os.fdopen(self.r2, 'rb') as f:
            data = f.read()
        os.waitpid(self.pid, 0)
        if not data:
            raise RuntimeError('harness: pristine reference helper died')
        return pickle.loads(data)

    def drop(self):
        import os
        try:
            os.close(self.w1)
            os.close(self.r2)
            os.waitpid(self.pid, 0)
        except OSError:
            pass


class RunA:
    def __init__(self, trace, props, keep_log=False):
        self.trace = trace
        self.props = frozenset(props)
        self.keep_log = keep_log
        self.log = [] if keep_log else None
        self.h = hashlib.sha256()
        self.n_events = 0
        self.n_calls = 0
        self.n_steps = 0
        self.fired = {}
        self.probes = {}
        self.oracle_evals = {}
        self.violation = None
        self.ref_cache = {}
        self.want_meter = True
        self.mem_calls = 0
        self.peekbuf = None
        self.threaded = bool(trace.get('threaded'))
        self.baton = None
        self.mem_peak_ratio = 0.0
        self.max_step_ratio = 0.0

    # ------------------------------------------------------------- logging
    def ev(self, *item):
        self.n_events += 1
        s = repr(item)
        self.h.update(s.encode('utf-8', 'backslashreplace'))
        if self.log is not None:
            self.log.append(s)

    def count(self, table, key, n=1):
        table[key] = table.get(key, 0) + n

    def probe(self, key, n=1):
        self.probes[key] = self.probes.get(key, 0) + n

    def oracle(self, key):
        if key[:3] in self.props:
            self.oracle_evals[key] = self.oracle_evals.get(key, 0) + 1
        elif key == 'C06.delivery' and 'C16' in self.props:
            self.oracle_evals['C16.stream_delivery'] = \
                self.oracle_evals.get('C16.stream_delivery', 0) + 1

    def fail(self, prop, oracle, cls, detail, buf=None):
        if prop == 'C06' and 'C16' in self.props and \
                'C06' not in self.props and oracle in ('delivery', 'history'):
            # World B's checks borrow the capacity population: a streamed
            # decode that differs from the pristine decode of the same bytes
            # is "a call that does not give the result it gives in a fresh
            # interpreter"
            prop, cls = 'C16', ['history-dependent', 'unmarshal'] + \
                list(cls[1:2])
        if prop in self.props and self.violation is None:
            self.violation = Violation(prop, oracle, cls, detail, buf)
            self.ev('VIOLATION', prop, oracle, cls)
            raise self.violation

    # --------------------------------------------------- library call seam
    def call_unmarshal(self, buf, why):
        """Every decode the simulated receivers make goes through here."""
        self.n_calls += 1
        budget = STEP_BASE + STEP_PER_BYTE * len(buf)
        if 'C08' not in self.props and budget > STEP_CAP_OTHER:
            # only C08 judges work; the others just need every call to end
            budget = STEP_CAP_OTHER
        sample_mem = 'C08' in self.props and (
            (self.n_calls & 7) == 0 or self.trace.get('mem_all')) and \
            not self.trace.get('no_mem_sample') and not self.threaded
        if sample_mem:
            tracemalloc.start()
        if self.threaded:
            # threaded population: the run as a whole is under one budget,
            # the call itself is pre-emptible line by line
            sample_mem = False
            steps = 0
            try:
                val = lib.frame.unmarshal(buf)
                status = 'ok'
            except Exception as e:
                val = e
                status = 'exc'
        else:
            try:
                status, val, steps = METER.run(lib.frame.unmarshal, buf,
                                               budget)
            finally:
                if sample_mem:
                    peak = tracemalloc.get_traced_memory()[1]
                    tracemalloc.stop()
        self.n_steps += steps
        if len(buf):
            ratio = steps / len(buf)
            if ratio > self.max_step_ratio and len(buf) >= 64:
                self.max_step_ratio = ratio
        if status == 'budget' and METER.where == 'deadlock':
            self.ev('um', why, len(buf), 'DEADLOCK')
            self.probe('library_lock_deadlock')
            self.oracle('C08.steps')
            self.fail('C08', 'steps', ['deadlock'],
                      'decode of %d bytes blocked for ever on a library lock '
                      'that nobody can release: %s' % (len(buf), val), buf)
            return 'budget', None
        if status == 'budget':
            self.ev('um', why, len(buf), 'BUDGET', METER.where)
            self.probe('step_budget_exceeded')
            self.oracle('C08.steps')
            self.fail('C08', 'steps', ['steps', METER.where],
                      'decode of %d bytes not finished after %d steps '
                      '(budget %d + %d*len); inside %s' % (
                          len(buf), steps, STEP_BASE, STEP_PER_BYTE,
                          METER.where), buf)
            return 'budget', None
        if 'C08' in self.props:
            self.oracle('C08.steps')
            if sample_mem:
                self.mem_calls += 1
                self.oracle('C08.memory')
                limit = MEM_BASE + MEM_PER_BYTE * len(buf)
                r = peak / limit
                if r > self.mem_peak_ratio:
                    self.mem_peak_ratio = r
                if peak > limit:
                    self.ev('um', why, len(buf), 'MEMORY')
                    self.fail('C08', 'memory', ['memory'],
                              'decode of %d bytes allocated %d bytes at peak '
                              '(limit %d)' % (len(buf), peak, limit), buf)
        if status == 'exc':
            e = val
            if isinstance(e, MemoryError):
                self.fail('C08', 'memory', ['memory'],
                          'MemoryError decoding %d bytes' % len(buf), buf)
            ce = canon_exc(e)
            self.ev('um', why, len(buf), ce)
            if isinstance(e, UME):
                if 'C09' in self.props:
                    self.oracle('C09.type')
                return 'ume', e
            if isinstance(e, RecursionError):
                # Exempt only the interpreter's own limit on inputs nested
                # deeper than the property covers (64 levels).  A nesting
                # level costs at least 5 bytes on the wire (tag + 32-bit
                # length), and a genuine overflow leaves hundreds of library
                # frames in the traceback; a RecursionError on a small
                # buffer or with a shallow traceback was raised by the
                # library itself on an input the property covers.
                depth = 0
                tb = e.__traceback__
                while tb is not None:
                    if lib.is_lib_file(tb.tb_frame.f_code.co_filename):
                        depth += 1
                    tb = tb.tb_next
                if len(buf) >= 64 * 5 and depth > 128:
                    self.probe('recursion_error_exempt')
                    return 'exc', e
            self.oracle('C09.type')
            tb = e.__traceback__
            fn = '?'
            while tb is not None:
                if lib.is_lib_file(tb.tb_frame.f_code.co_filename):
                    fn = tb.tb_frame.f_code.co_qualname
                tb = tb.tb_next
            self.probe('non_ume_exception')
            self.fail('C09', 'type', [ce[1], fn],
                      '%s escaped from frame.unmarshal (raised in %s): %s' % (
                          ce[1], fn, ce[2]), buf)
            return 'exc', e
        # success
        if 'C09' in self.props:
            self.oracle('C09.type')
        try:
            n, ch, f = val
        except Exception:
            self.ev('um', why, len(buf), 'BADRESULT')
            self.fail('C06', 'envelope', ['result-shape'],
                      'unmarshal returned %r' % (type(val),), buf)
            return 'exc', None
        self.ev('um', why, len(buf), 'ok', n, ch, frame_kind(f))
        if 'C06' in self.props:
            self.check_envelope(buf, n, ch, f)
        return 'ok', val

    def check_envelope(self, buf, n, ch, f):
        """C06 clause 2: every success agrees with the frame's own header."""
        self.oracle('C06.envelope')
        kind = frame_kind(f)
        if kind == 'protocol':
            if buf[:4] != b'AMQP' or n != 8 or len(buf) < 8:
                self.fail('C06', 'envelope', ['protocol'],
                          'ProtocolHeader returned for input starting %s '
                          'of length %d, consumed %r' % (
                              bytes(buf[:8]).hex(), len(buf), n), buf)
            return
        problems = []
        if len(buf) < 7:
            problems.append('success on %d bytes' % len(buf))
        else:
            want_kind = KIND_OF_TYPE.get(buf[0])
            if kind != want_kind:
                problems.append('type octet %d but %s returned' % (
                    buf[0], kind))
            hch = int.from_bytes(buf[1:3], 'big')
            if type(ch) is not int or ch != hch:
                problems.append('channel %r but header says %d' % (ch, hch))
            hn = int.from_bytes(buf[3:7], 'big') + 8
            if type(n) is not int or n != hn:
                problems.append('consumed %r but header says %d' % (n, hn))
            elif n > len(buf):
                problems.append('consumed %d of %d supplied' % (n, len(buf)))
            elif buf[n - 1] != 0xCE:
                problems.append('last consumed byte %#x is not the frame end'
                                % buf[n - 1])
        if problems:
            self.fail('C06', 'envelope', ['envelope', kind,
                                          problems[0].split(' ')[0]],
                      '; '.join(problems), buf)

    def probe_parts(self, buf, why, c=None):
        """C20 clause 1 on a buffer state a socket reader passes through."""
        self.oracle('C20.peek')
        exp = (buf[0], int.from_bytes(buf[1:3], 'big'),
               int.from_bytes(buf[3:7], 'big')) if len(buf) >= 7 \
            else (0, 0, None)
        # a socket reader may also keep ONE mutable buffer and refill it in
        # place between peeks (recv_into): same object, new contents
        holder = c if c is not None else self   # one buffer per reader
        if getattr(holder, 'peekbuf', None) is None:
            holder.peekbuf = bytearray()
        holder.peekbuf[:] = buf[:64]
        for view, label in ((buf, 'whole'), (buf[:7], 'first7'),
                            (holder.peekbuf, 'reused-bytearray')):
            try:
                got = lib.frame.frame_parts(view)
            except Exception as e:
                self.ev('fp', why, len(buf), canon_exc(e))
                self.fail('C20', 'peek', ['raised', type(e).__name__],
                          'frame_parts raised %r on %d bytes' % (e, len(buf)),
                          buf)
                return None
            ok = False
            try:
                ok = (len(got) == 3 and tuple(got) == exp and
                      all(type(a) is type(b) for a, b in zip(got, exp)))
            except Exception:
                pass
            if not ok:
                self.ev('fp', why, len(buf), 'MISMATCH')
                self.fail('C20', 'peek',
                          ['mismatch', 'short' if len(buf) < 7 else 'full',
                           label],
                          'frame_parts(%s) = %r, header bytes say %r' % (
                              label, got, exp), buf)
                return None
        if len(buf) >= 7:
            if exp[0] >= 128:
                self.probe('peek_type_ge_128')
            if exp[1] >= 32768:
                self.probe('peek_channel_ge_32768')
            if exp[2] >= 2**31:
                self.probe('peek_size_ge_2^31')
        else:
            self.probe('peek_short_buffer')
        return got

    # ------------------------------------------------------- stream set-up
    def reference(self, data):
        """Isolated decode of one frame's bytes -> canonical (n, ch, frame),
        or None if the bytes are not a complete valid frame for pamqp."""
        if data in self.ref_cache:
            return self.ref_cache[data]
        budget = STEP_BASE + STEP_PER_BYTE * len(data)
        if 'C08' not in self.props and budget > STEP_CAP_OTHER:
            budget = STEP_CAP_OTHER
        if self.threaded:
            try:
                val = lib.frame.unmarshal(data)
                status = 'ok'
            except Exception as e:
                val, status = e, 'exc'
        else:
            status, val, steps = METER.run(lib.frame.unmarshal, data, budget)
        ref = None
        if status == 'ok':
            try:
                n, ch, f = val
                if n == len(data):
                    ref = (n, ch, canon_frame(f))
            except Exception:
                ref = None
        if ref is None:
            self.probe('frame_not_valid_in_isolation')
        self.ref_cache[data] = ref
        return ref

    def reference_mut(self, data):
        """Isolated decode of the same frame bytes held in a bytearray of
        their own (the pinned decoder returns bytearray slices for bodies
        decoded from a bytearray)."""
        key = (data, 'x')
        if key not in self.ref_cache:
            try:
                n, ch, f = lib.frame.unmarshal(bytearray(data))
                self.ref_cache[key] = canon_frame(f)
            except Exception as e:
                self.ref_cache[key] = ('exc', canon_exc(e))
        return self.ref_cache[key]

    def check_refs_against_pristine(self, helper, conns):
        """C06: the isolated decode of a frame must not depend on what this
        process decoded before it (here: the frames sent earlier)."""
        frames = [fi for c in conns for fi in c.frames
                  if not fi.damaged and fi.kind != 'raw' and fi.data]
        refs = helper.ask([fi.data for fi in frames])
        for fi, pr in zip(frames, refs):
            self.oracle('C06.history')
            if pr is not None and fi.ref is not None and pr != fi.ref:
                self.fail('C06', 'history', ['delivery', 'history', fi.kind],
                          'the %s frame %d decodes differently depending on '
                          'which frames were decoded before it in the same '
                          'process (in sending order vs. in a pristine '
                          'process, in reverse order)' % (fi.kind, fi.idx),
                          fi.data)
            elif (pr is None) != (fi.ref is None):
                self.fail('C06', 'history', ['delivery', 'history-refused',
                                             fi.kind],
                          'the %s frame %d is accepted or refused depending '
                          'on which frames were decoded before it' % (
                              fi.kind, fi.idx), fi.data)

    def build_conn(self, ci, ct, want_ref=True):
        c = Conn()
        c.idx = ci
        c.recv = ct.get('recv', 'A')
        c.mutable_buf = bool(ct.get('mutable_buf'))
        c.frames = []
        faults = {}
        for fl in ct.get('faults', ()):
            faults.setdefault(fl['frame'], []).append(fl)
        pos = 0
        for k, desc in enumerate(ct['frames']):
            fi = FrameInfo()
            fi.idx = k
            fi.desc = desc
            fi.kind = desc['k']
            fi.damaged = desc['k'] == 'raw'
            fi.fault_kinds = []
            fi.encodable = True
            try:
                data = gen.encode_frame(desc)
                if not isinstance(data, (bytes, bytearray)):
                    raise TypeError('marshal returned %r' % type(data))
                data = bytes(data)
            except Exception as e:
                self.probe('unencodable_frame')
                self.ev('enc-fail', ci, k, canon_exc(e)[1])
                data = b''
                fi.encodable = False
                fi.damaged = True
            for fl in faults.get(k, ()):
                b = bytearray(data)
                for off, dl, hx in sorted(fl['patches'], reverse=True):
                    if off > len(b):
                        continue
                    b[off:off + dl] = bytes.fromhex(hx)
                nd = bytes(b)
                if fl.get('reframe'):
                    nd = wiremap.reframe(nd)
                if nd != data:
                    fi.damaged = True
                    fi.fault_kinds.append(
                        fl.get('kind', 'patch') +
                        ('+reframe' if fl.get('reframe') else ''))
                    data = nd
            fi.data = data
            fi.start = pos
            pos += len(data)
            fi.end = pos
            fi.ref = None
            if not fi.damaged and fi.kind != 'raw' and want_ref and \
                    'C06' in self.props:
                # only C06 compares decoded values; the other checks must
                # not have every frame decoded an extra time beforehand
                # (it perturbs the very history they examine)
                fi.ref = self.reference(data)
                # A frame the real encoder produced from accepted values is
                # a valid frame whatever the decoder thinks of it: it stays
                # expected (it must decode, consume its length, report its
                # channel; its prefixes must raise).  Only the comparison of
                # the decoded *value* needs the reference and is skipped when
                # the isolated decode gives none - value round trips are
                # C01-C03, not claimed here.
            c.frames.append(fi)
        trailer = bytes.fromhex(ct.get('trailer', ''))
        c.stream = b''.join(f.data for f in c.frames) + trailer
        c.frames_end = pos
        c.trailer_len = len(trailer)
        starts = [f.start for f in c.frames] + [pos]

        def absolute(p):
            k, off = p
            if k > len(c.frames):
                return None
            a = starts[k] + off
            lim = c.frames[k].end if k < len(c.frames) else len(c.stream)
            if off < 0 or a > lim:
                return None
            return a
        c.cuts = sorted({a for a in map(absolute, ct.get('cuts', ()))
                         if a is not None and 0 < a < len(c.stream)})
        c.closes = sorted({a for a in map(absolute, ct.get('closes', ()))
                           if a is not None and a < len(c.stream)})
        c.stalls = set(ct.get('stalls', ()))
        c.lat = ct.get('lat') or [1]
        c.pos = 0
        c.deliveries = 0
        c.inc = Incarnation(0)
        c.done = False
        c.cut_i = 0
        return c

    def frame_at(self, c, a):
        """Index of the frame containing stream offset a (or len(frames))."""
        lo, hi = 0, len(c.frames)
        while lo < hi:
            mid = (lo + hi) // 2
            if c.frames[mid].end <= a:
                lo = mid + 1
            else:
                hi = mid
        return lo

    # --------------------------------------------------------------- link
    def step_conn(self, c, now):
        """Deliver the next segment of connection c (one link event)."""
        if self.baton is not None:
            self.baton.point(None, 0)
        if c.deliveries in c.stalls:
            c.stalls.discard(c.deliveries)
            self.count(self.fired, 'stall')
            self.ev('stall', c.idx)
            self.wake(c, b'')
            return True
        end = len(c.stream)
        nxt = end
        while c.cut_i < len(c.cuts) and c.cuts[c.cut_i] <= c.pos:
            c.cut_i += 1
        if c.cut_i < len(c.cuts):
            nxt = c.cuts[c.cut_i]
        close_here = None
        for cl in c.closes:
            if cl >= c.pos:
                if cl <= nxt:
                    nxt = cl
                    close_here = cl
                break
        seg = c.stream[c.pos:nxt]
        a, b = c.pos, nxt
        c.pos = nxt
        c.deliveries += 1
        # which frames does this segment touch?
        k0 = self.frame_at(c, a)
        k1 = self.frame_at(c, max(a, b - 1)) if b > a else k0
        inflight = False
        for k in range(k0, min(k1, len(c.frames) - 1) + 1):
            fi = c.frames[k]
            if fi.damaged and b > a:
                if not c.inc.tainted:
                    c.inc.tainted = True
                for fk in fi.fault_kinds:
                    self.count(self.fired, fk)
                fi.fault_kinds = []
                if fi.kind == 'raw':
                    self.count(self.fired, 'raw_bytes')
            if (a > fi.start or b < fi.end) and b > a:
                inflight = True
        if k1 >= len(c.frames) and b > a:
            self.count(self.fired, 'trailing')
        if inflight:
            self.count(self.fired, 'fragment')
        elif b > a and k1 > k0:
            self.count(self.fired, 'coalesce')
        if b > a and k1 > k0 and inflight:
            self.count(self.fired, 'coalesce')
        self.ev('seg', c.idx, a, b)
        self.wake(c, seg)
        if close_here is not None and not c.inc.reset:
            c.closes.remove(close_here)
            self.count(self.fired, 'close')
            k = self.frame_at(c, close_here)
            if k < len(c.frames) and c.frames[k].start < close_here:
                self.probe('close_inside_frame')
            self.ev('close', c.idx, close_here)
            restart = c.frames[k].start if k < len(c.frames) else close_here
            if k >= len(c.frames):
                restart = c.frames_end if close_here == c.frames_end \
                    else close_here
            c.pos = restart
            c.cut_i = 0
            c.inc = Incarnation(k)
        elif c.inc.reset:
            self.count(self.fired, 'receiver_reset')
            k = self.frame_at(c, c.pos)
            if k < len(c.frames) and c.frames[k].start < c.pos:
                k += 1
            c.pos = c.frames[k].start if k < len(c.frames) else \
                max(c.pos, c.frames_end)
            self.ev('reset', c.idx, c.pos)
            c.inc = Incarnation(k)
        if c.pos >= end and not c.stalls:
            self.finish_conn(c)
            return False
        if c.pos >= end:
            # only stalls left: fire them now, in order
            c.deliveries = min(c.stalls)
        return True

    def finish_conn(self, c):
        inc = c.inc
        self.expected(c)
        if not inc.tainted and 'C06' in self.props:
            self.oracle('C06.liveness')
            if inc.ptr < len(c.frames):
                self.fail('C06', 'liveness', ['liveness'],
                          'stream fully delivered but frames %d..%d of '
                          'connection %d were never decoded; %d bytes left '
                          'in the buffer' % (inc.ptr, len(c.frames) - 1,
                                             c.idx, len(inc.buf)), inc.buf)
        c.done = True

    # ----------------------------------------------------------- receivers
    def expected(self, c):
        inc = c.inc
        while inc.ptr < len(c.frames) and not c.frames[inc.ptr].data:
            inc.ptr += 1   # nothing of this frame is on the wire
        if inc.tainted or inc.ptr >= len(c.frames):
            return None
        fi = c.frames[inc.ptr]
        if fi.damaged:
            return None
        return fi

    def wake(self, c, seg):
        if c.recv == 'B':
            self.wake_b(c, seg)
        else:
            self.wake_a(c, seg)

    def relation(self, c, buf):
        """How the receiver's buffer relates to the next sent frame."""
        fi = self.expected(c)
        if fi is None:
            return None, None
        if len(buf) < len(fi.data):
            if fi.data[:len(buf)] != buf:
                return self.out_of_step(c)
            return fi, 'prefix'
        if buf[:len(fi.data)] != fi.data:
            return self.out_of_step(c)
        return fi, 'complete'

    def out_of_step(self, c):
        """The receiver's buffer no longer lines up with what was sent.  That
        only happens after the library mis-sized something (a wrong consumed
        count or a wrong peek) which the property in charge has flagged or
        will flag; ground truth is off for the rest of this incarnation.  On
        a correct tree the probe stays at 0 (the driver checks)."""
        c.inc.tainted = True
        self.probe('harness_out_of_step')
        return None, None

    def check_prefix_outcome(self, c, fi, buf, status, val):
        """C07: a strict prefix of a valid frame must raise UME."""
        self.oracle('C07.prefix')
        if len(buf) == 7 and fi.kind == 'heartbeat':
            self.probe('heartbeat_cut7')
        if len(buf) == 0:
            self.probe('empty_prefix')
        if status == 'ume':
            return
        if status == 'ok':
            try:
                n = val[0]
            except Exception:
                n = None
            self.fail('C07', 'prefix', ['returned', fi.kind],
                      'a %d-byte strict prefix of a %d-byte %s frame was '
                      'decoded as a frame (consumed=%r, %s)' % (
                          len(buf), len(fi.data), fi.kind, n,
                          frame_kind(val[2]) if n is not None else '?'), buf)
        elif status == 'exc':
            self.fail('C07', 'prefix', ['raised', type(val).__name__, fi.kind],
                      'a %d-byte strict prefix of a %d-byte %s frame raised '
                      '%s instead of UnmarshalingException' % (
                          len(buf), len(fi.data), fi.kind,
                          type(val).__name__), buf)

    def check_delivery(self, c, fi, buf, val, what_follows):
        """C06 clause 1: same answer as the isolated decode of that frame."""
        self.oracle('C06.delivery')
        n, ch, f = val
        sent_ch = 0 if fi.kind == 'protocol' else \
            int.from_bytes(fi.data[1:3], 'big')
        key = what = None
        if n != len(fi.data):
            what = 'consumed %r, frame is %d bytes' % (n, len(fi.data))
            key = 'consumed'
        elif ch != sent_ch or type(ch) is not int:
            what = 'channel %r, sent on %r' % (ch, sent_ch)
            key = 'channel'
        elif fi.ref is not None and canon_frame(f) != (
                fi.ref[2] if not getattr(c, 'mutable_buf', False)
                else self.reference_mut(fi.data)):
            what = 'decoded value differs from the isolated decode of ' \
                   'the same frame bytes'
            key = 'value'
        if key is not None:
            self.fail('C06', 'delivery', ['delivery', key, fi.kind],
                      'frame %d of connection %d (%s) followed by %s: %s' % (
                          fi.idx, c.idx, fi.kind, what_follows, what), buf)
        self.count(self.probes, 'delivered_with_' + what_follows)

    @staticmethod
    def follows(buf, n, c, fi):
        rest = len(buf) - n
        if rest <= 0:
            return 'nothing'
        if fi.idx + 1 >= len(c.frames):
            return 'trailer'
        nxt = c.frames[fi.idx + 1]
        if rest < len(nxt.data):
            return 'partial_next_frame'
        return 'whole_next_frames'

    def wake_a(self, c, seg):
        """Buffering client: append, decode while frames come out."""
        inc = c.inc
        mut = getattr(c, 'mutable_buf', False)
        if mut and not isinstance(inc.buf, bytearray):
            # a client that keeps ONE bytearray as its receive buffer:
            # extends it in place, decodes from it, compacts it in place
            inc.buf = bytearray(inc.buf)
        inc.buf += seg
        if 'C20' in self.props:
            self.probe_parts(inc.buf, 'A%d' % c.idx, c)
        guard = 0
        while True:
            guard += 1
            if guard > 100000:
                raise RuntimeError('harness: receiver loop did not end')
            buf = inc.buf
            fi, rel = self.relation(c, buf)
            status, val = self.call_unmarshal(buf, 'A%d' % c.idx)
            if rel == 'prefix' and 'C07' in self.props and \
                    status != 'budget':
                self.check_prefix_outcome(c, fi, buf, status, val)
            if status == 'ok':
                n = val[0]
                compacted = False
                if rel == 'complete':
                    follows = self.follows(buf, len(fi.data), c, fi)
                    if mut and type(n) is int and 0 < n <= len(buf):
                        # the consumed bytes are dropped from the buffer in
                        # place BEFORE the application looks at the frame
                        self.count(self.fired, 'buffer_compacted_in_place')
                        try:
                            del buf[:n]
                            compacted = True
                        except BufferError as e:
                            self.oracle('C06.delivery')
                            self.fail('C06', 'delivery',
                                      ['delivery', 'buffer-retained',
                                       fi.kind],
                                      'after decoding a %s frame the '
                                      'receive buffer cannot be compacted: '
                                      'the decoder kept a view on the '
                                      'caller\'s bytearray (%s)' % (
                                          fi.kind, e), fi.data)
                    self.check_delivery(c, fi, fi.data if compacted else buf,
                                        val, follows)
                    inc.ptr += 1
                    if n != len(fi.data):
                        # out of step; some other property's business here
                        inc.tainted = True
                elif rel == 'prefix':
                    # a frame came out of an incomplete one: the stream is
                    # now out of step, whatever property flags it
                    inc.tainted = True
                    self.probe('frame_from_prefix')
                inc.delivered += 1
                if type(n) is not int or n <= 0:
                    inc.reset = True
                    break
                if not compacted:
                    inc.buf = buf[n:]
                continue
            if rel == 'complete' and status != 'budget':
                self.oracle('C06.delivery')
                self.fail('C06', 'delivery',
                          ['delivery', 'refused', fi.kind],
                          'frame %d of connection %d (%s, %d bytes) is '
                          'complete at the start of a %d-byte buffer but '
                          'decoding failed with %s although the same bytes '
                          'decode in isolation' % (
                              fi.idx, c.idx, fi.kind, len(fi.data), len(buf),
                              canon_exc(val)[1:] if val is not None else '?'),
                          buf)
            if status in ('exc', 'budget') or harness_complete(buf):
                if buf:
                    inc.reset = True
            break

    def wake_b(self, c, seg):
        """Peek client (aiormq style): read 7, frame_parts, read size+1."""
        inc = c.inc
        if getattr(c, 'mutable_buf', False) and \
                not isinstance(inc.buf, bytearray):
            inc.buf = bytearray(inc.buf)
        inc.buf += seg
        if 'C20' in self.props:
            self.probe_parts(inc.buf, 'B%d' % c.idx, c)
        while True:
            buf = inc.buf
            fi, rel = self.relation(c, buf)
            if rel == 'prefix' and 'C07' in self.props:
                # observation only: what would a decode of the bytes read so
                # far say?  (the peek client itself never asks)
                status, val = self.call_unmarshal(buf, 'Bp%d' % c.idx)
                if status != 'budget':
                    self.check_prefix_outcome(c, fi, buf, status, val)
            if len(buf) < 7:
                break
            hdr = buf[:7]
            if hdr[:4] == b'AMQP':
                want = 8
                pch = 0
            else:
                try:
                    ftype, pch, size = lib.frame.frame_parts(hdr)
                    want = 7 + size + 1
                    if want < 8:
                        raise ValueError('negative size')
                except Exception as e:
                    self.ev('B-peek-fail', c.idx, canon_exc(e)[1])
                    if rel is not None:
                        self.oracle('C20.protocol')
                        self.fail('C20', 'protocol', ['peek-unusable'],
                                  'frame_parts on a 7-byte header of a valid '
                                  'frame gave nothing to size the read with: '
                                  '%r' % (e,), hdr)
                    inc.reset = True
                    break
            if len(buf) < want:
                if rel == 'complete':
                    self.oracle('C20.protocol')
                    self.fail('C20', 'protocol', ['size', fi.kind],
                              'peeked size + 8 = %d but the %s frame is %d '
                              'bytes long' % (want, fi.kind, len(fi.data)),
                              hdr)
                break
            fr = buf[:want]
            status, val = self.call_unmarshal(fr, 'B%d' % c.idx)
            if rel is not None:
                self.oracle('C20.protocol')
                if want != len(fi.data) and fi.kind != 'protocol':
                    self.fail('C20', 'protocol', ['size', fi.kind],
                              'peeked size + 8 = %d but the %s frame is %d '
                              'bytes long' % (want, fi.kind, len(fi.data)),
                              hdr)
                if status == 'ok' and fi.kind != 'protocol':
                    n, ch, f = val
                    if n != want or ch != pch:
                        self.fail('C20', 'protocol',
                                  ['disagree', fi.kind],
                                  'read %d bytes for channel %r as peeked, '
                                  'decoder consumed %r on channel %r' % (
                                      want, pch, n, ch), fr)
                elif status in ('ume', 'exc') and fi.kind != 'protocol':
                    self.fail('C20', 'protocol', ['refused', fi.kind],
                              'header + size + 1 bytes of a valid %s frame '
                              'refused by the decoder: %s' % (
                                  fi.kind, canon_exc(val)[1:]), fr)
            if status == 'ok':
                if rel is not None and want == len(fi.data):
                    self.check_delivery(c, fi, fr, val, 'nothing')
                    inc.ptr += 1
                inc.delivered += 1
                inc.buf = buf[want:]
                continue
            if rel is not None and status != 'budget' and \
                    want == len(fi.data):
                self.oracle('C06.delivery')
                self.fail('C06', 'delivery', ['delivery', 'refused', fi.kind],
                          'complete %s frame refused by the decoder' %
                          fi.kind, fr)
            inc.reset = True
            break

    # ------------------------------------------------------------- the run
    def point(self, code, line):
        # sys.monitoring LINE callback (installed by sim.world_b.install).
        # Runs inside library frames: a mistake of the harness here must
        # never look like an exception raised by the library.
        if self.baton is not None:
            try:
                self.baton.point(code, line)
            except Exception as e:
                import traceback
                self.harness_failure = '%r\n%s' % (
                    e, traceback.format_exc()[-1500:])
                self.baton.abort = True
                from sim import sched
                raise sched.AbortRun()

    def execute_threaded(self):
        """Every connection (producer: encode its frames; then its receiver)
        runs in its own real thread; the baton scheduler pre-empts at pamqp
        source lines as the trace says."""
        from sim import sched, world_b
        world_b.install()
        METER.install()
        cts = self.trace['conns']
        n = len(cts)
        conns = [None] * n
        prebuilt = bool(self.trace.get('prebuilt'))
        watch = None
        ls = self.trace.get('lockstep')
        if prebuilt:
            # capacity population: the streams are encoded here, before any
            # thread exists; the threads only decode.  For C06 the reference
            # values come from a helper forked before this process made its
            # first library call (decoding in reverse order).
            helper = PristineRefs() if 'C06' in self.props else None
            try:
                for ci, ct in enumerate(cts):
                    conns[ci] = self.build_conn(ci, ct, want_ref=False)
                if helper is not None:
                    frames = [fi for c in conns for fi in c.frames
                              if not fi.damaged and fi.kind != 'raw'
                              and fi.data]
                    refs = helper.ask([fi.data for fi in frames])
                    helper = None
                    for fi, pr in zip(frames, refs):
                        fi.ref = pr
            finally:
                if helper is not None:
                    helper.drop()
        if ls is not None:
            from sim import watch as watch_mod
            watch = watch_mod.Watch(margin=ls.get('margin', 4))
        self.baton = sched.Baton(n, self.trace, self.ev)
        ls_budget = [ls.get('max_ops', 400) if ls else 0]

        def body(tid):
            if prebuilt:
                c = conns[tid]
            else:
                c = self.build_conn(tid, cts[tid])
                conns[tid] = c
            self.ev('conn', tid, c.recv, len(c.frames), len(c.stream))
            guard = 0
            while not c.done:
                guard += 1
                if guard > 2000000:
                    raise RuntimeError('harness: connection never finished')
                if guard % 200 == 0:
                    core.heartbeat()
                if watch is not None:
                    # state-aware fault placement: go lock-step while some
                    # library container is about to reach a round capacity
                    if guard % 97 == 0:
                        watch.scan()
                    hit = watch.near_boundary() if ls_budget[0] > 0 else None
                    if hit is not None:
                        ls_budget[0] -= 1
                        if not self.baton.lock_on:
                            self.probe('lockstep_windows')
                            self.ev('lockstep-on', tid, hit)
                        self.count(self.fired, 'lockstep_op_near_capacity')
                    self.baton.lock_on = hit is not None
                if not self.step_conn(c, 0):
                    break

        def safe_body(tid):
            try:
                body(tid)
            except Violation:
                self.baton.abort = True
        METER.count = 0
        METER.budget = 6000000
        METER.tripped = False
        METER.where = None
        METER.last_loop = None
        METER.active = True
        world_b.CURRENT[0] = self
        lib.LOCK_YIELD[0] = self.baton.lock_yield
        try:
            self.baton.run([safe_body] * n)
        finally:
            world_b.CURRENT[0] = None
            lib.LOCK_YIELD[0] = None
            METER.active = False
        self.n_steps = METER.count
        if getattr(self, 'harness_failure', None):
            raise RuntimeError('harness: scheduler callback failed: ' +
                               self.harness_failure)
        for name, rep, tb in self.baton.errors:
            if name == 'StepBudgetExceeded':
                self.probe('run_aborted_by_step_budget')
            elif name == 'Deadlock':
                self.probe('library_lock_deadlock')
                if self.violation is None and 'C08' in self.props:
                    try:
                        self.fail('C08', 'steps', ['deadlock'],
                                  'a decode blocked for ever on a library '
                                  'lock that nobody can release: ' + rep)
                    except Violation:
                        pass
            else:
                raise RuntimeError('harness: thread error %s\n%s' % (rep,
                                                                     tb))
        if watch is not None:
            self.watch_summary = watch.summary()
            self.ev('watch', self.watch_summary)
            if self.baton.ls_switches:
                self.count(self.fired, 'lockstep_switch',
                           self.baton.ls_switches)
            if self.violation is None and self.trace.get('tail') and \
                    'C08' in self.props:
                try:
                    self.soak_tail(watch, self.trace['tail'])
                except Violation:
                    pass
        self.count(self.fired, 'preempt_inside_call',
                   sum(1 for s_ in self.baton.switch_sigs
                       if s_[2][0] != 'op-boundary'))
        self.count(self.fired, 'switch_at_op_boundary',
                   sum(1 for s_ in self.baton.switch_sigs
                       if s_[2][0] == 'op-boundary'))
        nontrivial = bool(self.oracle_evals) and any(
            v for k, v in self.fired.items())
        sig = hashlib.sha1(repr(self.baton.switch_sigs).encode()
                           ).hexdigest()[:16]
        return {
            'digest': self.h.hexdigest(), 'violation': self.violation,
            'fired': {k: v for k, v in self.fired.items() if v},
            'probes': self.probes, 'oracles': self.oracle_evals,
            'events': self.n_events, 'calls': self.n_calls,
            'steps': self.n_steps, 'vtime': 0, 'nontrivial': nontrivial,
            'mem_calls': 0, 'mem_peak_ratio': 0.0, 'max_step_ratio': 0.0,
            'extra': {'schedule_signatures': {sig}
                      if self.baton.switch_sigs else set(),
                      'line_events': self.baton.step},
            'log': self.log,
        }

    def virtual_prefixes(self):
        """Strict prefixes of valid frames that are too large to build: a
        body frame of 2^31 bytes and more is a valid frame (any bytes are a
        valid body), and so the first few bytes of one, after which the peer
        closed, are a strict prefix of a valid frame."""
        for vp in self.trace.get('virtual', ()):
            size = vp['size']
            have = bytes.fromhex(vp['have'])
            if len(have) > size:      # (size + 1 bytes would complete it)
                continue
            buf = bytes([3]) + vp['ch'].to_bytes(2, 'big') + \
                size.to_bytes(4, 'big') + have
            self.count(self.fired, 'close_inside_huge_frame')
            self.ev('virtual', vp['ch'], size, len(have))
            if 'C20' in self.props:
                self.probe_parts(buf, 'V')
            status, val = self.call_unmarshal(buf, 'V')
            if 'C07' in self.props and status != 'budget':
                self.oracle('C07.prefix')
                if size >= 2**31:
                    self.probe('prefix_of_frame_ge_2GiB')
                if status == 'ok':
                    self.fail('C07', 'prefix', ['returned', 'body'],
                              'the first %d bytes of a %d-byte body frame '
                              'were decoded as a frame (consumed=%r)' % (
                                  len(buf), size + 8, val[0]), buf)
                elif status == 'exc':
                    self.fail('C07', 'prefix',
                              ['raised', type(val).__name__, 'body'],
                              'the first %d bytes of a %d-byte body frame '
                              'raised %s instead of UnmarshalingException'
                              % (len(buf), size + 8, type(val).__name__),
                              buf)

    # ------------------------------------------- capacity: fork-and-explore
    def execute_capacity(self):
        """Long histories of distinct frames on 2-3 connections, executed
        operation by operation in ONE thread (connections alternate).  When
        the state watch sees a library container within a few entries of a
        capacity of interest, the round about to be executed is explored
        systematically in forked children: every child turns the connections
        into real threads for a window of w operations each and parks one
        thread just before the k-th line it executes inside a function that
        touches the library's containers, lets the other threads run their
        window, then resumes it - for every thread and every k.  A child
        whose container state after the window is not the state of any
        sequential order goes on to the end of the run (consequences of a
        race often show a thousand operations later).  The parent never
        runs concurrently; it continues sequentially to the next boundary.
        Replay: 'explore_only' = [round, thread, k] runs that one variant
        in-process at that round."""
        from sim import world_b, watch as watch_mod
        core.apply_logging_config(self.trace)
        world_b.install()
        METER.install()
        cts = self.trace['conns']
        ex = self.trace['explore']
        only = self.trace.get('explore_only')
        helper = PristineRefs() if self.props & {'C06', 'C16'} else None
        conns = []
        lib.LOCK_YIELD[0] = lib.single_thread_yield
        try:
            try:
                for ci, ct in enumerate(cts):
                    conns.append(self.build_conn(ci, ct, want_ref=False))
                if helper is not None:
                    frames = [fi for c in conns for fi in c.frames
                              if not fi.damaged and fi.kind != 'raw'
                              and fi.data]
                    refs = helper.ask([fi.data for fi in frames])
                    helper = None
                    for fi, pr in zip(frames, refs):
                        fi.ref = pr
            finally:
                if helper is not None:
                    helper.drop()
            for c in conns:
                self.ev('conn', c.idx, c.recv, len(c.frames), len(c.stream))
            watch = watch_mod.Watch()
            round_no = 0
            explored = 0
            spent = {}
            while any(not c.done for c in conns):
                round_no += 1
                if round_no % 50 == 0:
                    watch.scan()
                    core.heartbeat()
                if only is not None:
                    if round_no == only[0]:
                        self.ev('variant', only)
                        info = self.run_variant(conns, watch, only[1],
                                                only[2], ex['w'], only[4],
                                                only[3])
                        self.count(self.fired, 'explored_interleaving')
                        continue
                elif explored < ex['max_rounds']:
                    hit = watch.near_caps(ex['caps'], ex['margin'], spent,
                                          ex.get('per_cap', 4))
                    if hit is not None:
                        explored += 1
                        self.explore_round(conns, watch, round_no, ex,
                                           '%s@%d' % hit)
                for c in conns:
                    if not c.done:
                        self.reencode(c)
                        self.step_conn(c, 0)
            watch.scan()
            self.ev('watch', watch.summary())
            if self.trace.get('tail') and 'C08' in self.props and \
                    only is not None:
                # (in a batch run only the explored children that left an
                # unusual container state behind run the tail; the parent
                # never ran concurrently - single-threaded retention is the
                # soak population's business)
                self.soak_tail(watch, self.trace['tail'])
        except Violation:
            pass
        finally:
            lib.LOCK_YIELD[0] = None
        res = {
            'digest': self.h.hexdigest(), 'violation': self.violation,
            'fired': {k: v for k, v in self.fired.items() if v},
            'probes': self.probes, 'oracles': self.oracle_evals,
            'events': self.n_events, 'calls': self.n_calls,
            'steps': self.n_steps, 'vtime': 0,
            'nontrivial': bool(self.oracle_evals) and self.n_calls > 1,
            'mem_calls': self.mem_calls, 'mem_peak_ratio': 0.0,
            'max_step_ratio': self.max_step_ratio,
            'extra': {'max_retained_bytes':
                      getattr(self, 'retained_peak', 0)},
            'log': self.log,
        }
        if getattr(self, 'trace_patch', None):
            res['trace_patch'] = self.trace_patch
        return res

    def reencode(self, c):
        """C12 / C16 on the producer side: the frame about to be delivered
        is built and marshalled AGAIN (constructor + frame.marshal, here and
        now - possibly next to another thread doing the same) and must give
        the bytes it gave when the stream was prepared."""
        if not (self.props & {'C12', 'C16'}):
            return
        inc = c.inc
        k = inc.ptr
        if k >= len(c.frames) or len(inc.buf):
            return          # only at frame boundaries
        fi = c.frames[k]
        if fi.kind == 'raw' or fi.damaged and fi.encodable:
            return
        prop = 'C16' if 'C16' in self.props else 'C12'
        self.oracle(prop + '.marshal_again')
        try:
            data = bytes(gen.encode_frame(fi.desc))
            out = None
        except Exception as e:
            data, out = None, canon_exc(e)
        self.n_calls += 1
        self.ev('enc', c.idx, k, out[1] if out else len(data))
        if fi.encodable and data != fi.data or \
                not fi.encodable and data is not None:
            self.fail(prop, 'marshal_again',
                      ['history-dependent' if prop == 'C16' else
                       'nondeterministic', 'marshal'],
                      'frame %d of connection %d (%s), built and marshalled '
                      'again, gives %s; when the stream was prepared it gave '
                      '%s' % (k, c.idx, fi.kind,
                              out[1:] if out else data.hex()[:200],
                              fi.data.hex()[:200] if fi.encodable
                              else 'an exception'), fi.data)

    def run_variant(self, conns, watch, t, k, w, names, rv=None):
        """One interleaving of a window: every connection is a real thread
        executing its next w operations; thread t starts and is parked at
        its k-th container-touching line (k None: no parking)."""
        from sim import sched, world_b
        n = len(conns)
        vtrace = {'first': t, 'exit_picks': [0],
                  'park': {'thread': t, 'k': k, 'names': list(names),
                           'rv': rv}}
        self.baton = sched.Baton(n, vtrace, self.ev)
        self.threaded = True

        def body(tid):
            c = conns[tid]
            for _ in range(w):
                if c.done:
                    break
                self.reencode(c)
                if not self.step_conn(c, 0):
                    break

        def safe_body(tid):
            try:
                body(tid)
            except Violation:
                self.baton.abort = True
        METER.count = 0
        METER.budget = 3000000
        METER.tripped = False
        METER.where = None
        METER.last_loop = None
        METER.active = True
        world_b.CURRENT[0] = self
        lib.LOCK_YIELD[0] = self.baton.lock_yield
        try:
            self.baton.run([safe_body] * n)
        finally:
            world_b.CURRENT[0] = None
            lib.LOCK_YIELD[0] = lib.single_thread_yield
            METER.active = False
            self.threaded = False
        self.n_steps += METER.count
        baton, self.baton = self.baton, None
        if getattr(self, 'harness_failure', None):
            raise RuntimeError('harness: scheduler callback failed: ' +
                               self.harness_failure)
        for name, rep, tb in baton.errors:
            if name == 'StepBudgetExceeded':
                self.probe('run_aborted_by_step_budget')
                if self.violation is None:
                    self.oracle('C08.steps')
                    try:
                        self.fail('C08', 'steps', ['steps', METER.where],
                                  'two decodes running concurrently did not '
                                  'finish within %d steps; inside %s' % (
                                      METER.budget, METER.where))
                    except Violation:
                        pass
            elif name == 'Deadlock':
                self.probe('library_lock_deadlock')
                if self.violation is None:
                    try:
                        self.fail('C08', 'steps', ['deadlock'],
                                  'a decode blocked for ever on a library '
                                  'lock that nobody can release: ' + rep)
                    except Violation:
                        pass
            else:
                raise RuntimeError('harness: thread error %s\n%s' % (rep,
                                                                     tb))
        if self.violation is not None:
            raise self.violation
        return {'relevant': list(baton.relevant),
                'parked': baton.park_done, 'met': baton.rv_state >= 2,
                'digest': watch.state_digest()}

    def explore_round(self, conns, watch, round_no, ex, hit):
        import os
        import pickle
        n = len(conns)
        names = watch.dynamic_names()
        self.count(self.fired, 'explored_round')
        self.ev('explore', round_no, hit)

        def spawn(t, k, rv=None):
            r1, w1 = os.pipe()
            r2, w2 = os.pipe()
            pid = os.fork()
            if pid == 0:
                code = 0
                try:
                    os.close(r1)
                    os.close(w2)
                    core.WAL_PATH[0] = None
                    out = {'violation': None}
                    try:
                        out.update(self.run_variant(conns, watch, t, k,
                                                    ex['w'], names, rv))
                    except Violation as v:
                        out['violation'] = v.to_json()
                    os.write(w1, pickle.dumps(out) + b'\n.END.\n')
                    if out['violation'] is None and os.read(r2, 1) == b'c':
                        # unusual container state: play the run to its end
                        fin = {'violation': None}
                        try:
                            while any(not c.done for c in conns):
                                for c in conns:
                                    if not c.done:
                                        self.reencode(c)
                                        self.step_conn(c, 0)
                            if self.trace.get('tail') and \
                                    'C08' in self.props:
                                self.soak_tail(watch, self.trace['tail'])
                        except Violation as v:
                            fin['violation'] = v.to_json()
                        os.write(w1, pickle.dumps(fin) + b'\n.END.\n')
                except BaseException:
                    import traceback
                    try:
                        os.write(w1, pickle.dumps(
                            {'harness': traceback.format_exc()[-1500:]}) +
                            b'\n.END.\n')
                    except OSError:
                        pass
                    code = 3
                finally:
                    os._exit(code)
            os.close(w1)
            os.close(r2)
            return pid, r1, w2

        def read_msg(fd):
            buf = b''
            while not buf.endswith(b'\n.END.\n'):
                b = os.read(fd, 1 << 16)
                if not b:
                    return None
                buf += b
            return pickle.loads(buf[:-7])

        def finish(pid, r1, w2, cmd):
            try:
                os.write(w2, cmd)
            except OSError:
                pass
            msg = read_msg(r1) if cmd == b'c' else None
            os.close(r1)
            os.close(w2)
            os.waitpid(pid, 0)
            return msg

        def found(vj, t, k, when, rv=None):
            self.trace_patch = {'explore_only': [round_no, t, k, rv, names]}
            self.ev('explore-violation', round_no, t, k, rv, when)
            v = Violation(vj['property'], vj['oracle'], vj['class'],
                          vj['detail'] + ' [interleaving: round %d, thread '
                          '%d parked before its container-touching line %r'
                          '%s]' % (round_no, t, k, '' if not rv else
                                   ', the next thread brought to the same '
                                   'source line (arrival %d), then both '
                                   'executed it' % rv))
            if v.prop in self.props and self.violation is None:
                self.violation = v
                raise v

        seq_digests = set()
        relevant = [0] * n
        # sequential orders first: reference container states
        for t in sorted({0, n - 1}):
            pid, r1, w2 = spawn(t, None)
            msg = read_msg(r1)
            finish(pid, r1, w2, b'x')
            if msg is None or 'harness' in msg:
                raise RuntimeError('harness: exploration child failed: %r' %
                                   (msg,))
            if msg['violation'] is not None:
                found(msg['violation'], t, None, 'window')
                return
            seq_digests.add(msg['digest'])
            relevant = [max(a, b) for a, b in zip(relevant, msg['relevant'])]
        variants = 0
        suspicious = 0
        seen_unusual = set()
        self.continued = getattr(self, 'continued', 0)
        if sum(1 for x in relevant if x) < 2:
            # at most one thread touches a container in this window:
            # nothing to interleave
            self.probe('explore_round_without_interaction')
            self.ev('explored', round_no, 0, 0)
            return
        for t in range(n):
            top = min(relevant[t], ex['kmax'])
            for k in range(1, top + 1):
                for rv in (None, 1):
                    variants += 1
                    pid, r1, w2 = spawn(t, k, rv)
                    msg = read_msg(r1)
                    if msg is None or 'harness' in msg:
                        finish(pid, r1, w2, b'x')
                        raise RuntimeError('harness: exploration child '
                                           'failed: %r' % (msg,))
                    if msg['violation'] is not None:
                        finish(pid, r1, w2, b'x')
                        self.count(self.fired, 'explored_interleaving',
                                   variants)
                        found(msg['violation'], t, k, 'window', rv)
                        return
                    if msg['digest'] not in seq_digests and \
                            msg['digest'] not in seen_unusual and \
                            len(seen_unusual) < 3 and \
                            self.continued < ex.get('max_continue', 10):
                        # a container state no sequential order produces
                        # (each distinct state once): play the run on
                        seen_unusual.add(msg['digest'])
                        self.continued += 1
                        suspicious += 1
                        fin = finish(pid, r1, w2, b'c')
                        if fin is None or 'harness' in fin:
                            raise RuntimeError('harness: exploration child '
                                               'failed: %r' % (fin,))
                        if fin['violation'] is not None:
                            self.count(self.fired, 'explored_interleaving',
                                       variants)
                            found(fin['violation'], t, k, 'later', rv)
                            return
                    else:
                        finish(pid, r1, w2, b'x')
                    if rv and not msg.get('met'):
                        break   # the threads never met at that line
        self.count(self.fired, 'explored_interleaving', variants)
        if suspicious:
            self.probe('interleaving_left_unusual_container_state',
                       suspicious)
        self.ev('explored', round_no, variants, suspicious)
        core.heartbeat()

    # ------------------------------------------------------------- soaks
    RETAIN_SUSPECT = 256 * 1024
    RETAIN_HARD = 3 * 1024 * 1024
    RETAIN_PER_BYTE = 64
    SOAK_EXTEND = 16

    def soak_loop(self, spec, n, measure, why, warm=0):
        """Decode the first n inputs of the series (results dropped), sampling
        the retained memory four times; while what is retained exceeds the
        suspect level AND is still growing, extend the history (up to
        SOAK_EXTEND * n inputs): a bounded cache saturates and the growth
        stops, an unbounded one passes the hard limit.  Deterministic: the
        extension depends on the library's state only."""
        q = max(1, (n - warm) // 4)
        samples = []
        maxlen = 0
        i = 0
        total = warm + 4 * q      # samples fall on the end of every leg
        while i < total:
            if i == warm:
                samples.append(measure(True))
            data = soak_frame(spec, i)
            if len(data) > maxlen:
                maxlen = len(data)
            if i % 500 == 0:
                core.heartbeat()
            self.call_unmarshal(data, why)
            data = None
            i += 1
            if i > warm and (i - warm) % q == 0:
                samples.append(measure(False))
            if i >= total and total < self.SOAK_EXTEND * n:
                grown = samples[-1] - samples[0]
                per = grown / (len(samples) - 1)
                last = samples[-1] - samples[-2]
                if grown > self.RETAIN_SUSPECT and last * 4 > per and \
                        grown <= self.RETAIN_HARD + \
                        self.RETAIN_PER_BYTE * maxlen:
                    total += 4 * q
                    self.probe('soak_extended')
        self.oracle('C08.retention')
        grown = samples[-1] - samples[0]
        per = grown / max(1, len(samples) - 1)
        last = samples[-1] - samples[-2] if len(samples) > 1 else 0
        limit = self.RETAIN_HARD + self.RETAIN_PER_BYTE * maxlen
        self.retained_peak = max(getattr(self, 'retained_peak', 0), grown)
        self.ev('retention', why, i, grown > limit)
        if grown > limit and last * 4 > per:
            self.fail('C08', 'retention', ['retention'],
                      'after decoding a history of %d distinct inputs '
                      '(largest %d bytes) and dropping every result, %d '
                      'bytes more are held than at the start (limit %d) and '
                      'the amount was still growing when the history ended '
                      '(growth per quarter: %r)' % (
                          i, maxlen, grown, limit,
                          [samples[k + 1] - samples[k]
                           for k in range(len(samples) - 1)][-8:]))
        return i

    def soak_tail(self, watch, n):
        """After a threaded capacity run: a single-threaded history of
        distinct frames; whatever the races left behind (a cache whose
        bound no longer binds) shows as retained memory."""
        self.threaded = False
        lib.LOCK_YIELD[0] = lib.single_thread_yield
        spec = {'n': n, 'weights': {'strings': 3, 'keys': 2, 'stamps': 1,
                                    'bodies': 1},
                'a': 2654435761, 'b': 97, 'chain': 1, 'chain_low': True}

        def measure(first):
            watch.scan()
            return watch.retained()
        try:
            done = self.soak_loop(spec, n, measure, 'tail')
        finally:
            lib.LOCK_YIELD[0] = None
        self.count(self.fired, 'soak_tail_frames', done)

    def execute_soak(self):
        import gc
        spec = self.trace['soak']
        n = spec['n']
        METER.install()
        lib.LOCK_YIELD[0] = lib.single_thread_yield

        def measure(first):
            gc.collect()
            if first:
                tracemalloc.start()
            return tracemalloc.get_traced_memory()[0]
        try:
            done = self.soak_loop(spec, n, measure, 's',
                                  warm=min(300, n // 10))
            self.count(self.fired, 'soak_frames', done)
        except Violation:
            pass
        finally:
            lib.LOCK_YIELD[0] = None
            if tracemalloc.is_tracing():
                tracemalloc.stop()
        return {
            'digest': self.h.hexdigest(), 'violation': self.violation,
            'fired': self.fired, 'probes': self.probes,
            'oracles': self.oracle_evals, 'events': self.n_events,
            'calls': self.n_calls, 'steps': self.n_steps, 'vtime': 0,
            'nontrivial': bool(self.oracle_evals) and self.n_calls > 1,
            'mem_calls': self.mem_calls, 'mem_peak_ratio': 0.0,
            'max_step_ratio': self.max_step_ratio,
            'extra': {'max_retained_bytes':
                      getattr(self, 'retained_peak', 0)},
            'log': self.log,
        }

    def execute(self):
        core.apply_logging_config(self.trace)
        if self.trace.get('population') == 'soak':
            return self.execute_soak()
        if self.trace.get('explore') is not None:
            return self.execute_capacity()
        if self.threaded:
            return self.execute_threaded()
        METER.install()
        lib.LOCK_YIELD[0] = lib.single_thread_yield
        helper = None
        if 'C06' in self.props and self.trace.get('population') in (
                'frag', 'long'):
            helper = PristineRefs()   # before this run touches the library
        conns = []
        heap = []
        seq = 0
        try:
            for ci, ct in enumerate(self.trace['conns']):
                c = self.build_conn(ci, ct)
                conns.append(c)
                self.ev('conn', ci, c.recv, len(c.frames), len(c.stream))
                heapq.heappush(heap, (c.lat[0], seq, ci))
                seq += 1
            if helper is not None:
                self.check_refs_against_pristine(helper, conns)
                helper = None
            self.vtime = 0
            beats = 0
            while heap:
                beats += 1
                if beats % 256 == 0:
                    core.heartbeat()   # (between library calls only)
                now, _, ci = heapq.heappop(heap)
                self.vtime = now
                c = conns[ci]
                if c.done:
                    continue
                if self.step_conn(c, now):
                    lat = c.lat[c.deliveries % len(c.lat)]
                    heapq.heappush(heap, (now + max(1, lat), seq, ci))
                    seq += 1
            self.virtual_prefixes()
        except Violation:
            pass
        finally:
            lib.LOCK_YIELD[0] = None
            if helper is not None:
                helper.drop()
        nontrivial = bool(self.oracle_evals) and any(
            v for k, v in self.fired.items())
        return {
            'digest': self.h.hexdigest(),
            'violation': self.violation,
            'fired': self.fired,
            'probes': self.probes,
            'oracles': self.oracle_evals,
            'events': self.n_events,
            'calls': self.n_calls,
            'steps': self.n_steps,
            'vtime': getattr(self, 'vtime', 0),
            'nontrivial': nontrivial,
            'mem_calls': self.mem_calls,
            'mem_peak_ratio': self.mem_peak_ratio,
            'max_step_ratio': self.max_step_ratio,
            'log': self.log,
        }


_SOAK_KINDS = ('flagchain', 'strings', 'keys', 'stamps', 'bodies',
               'badutf8', 'badtag', 'deep', 'partial', 'dupkeys')


def _soak_kind(spec, i):
    w = spec['weights']
    tot = sum(w.get(k, 0) for k in _SOAK_KINDS)
    x = (spec['a'] * (i + 1) + spec['b']) % 2147483647 % max(1, tot)
    for k in _SOAK_KINDS:
        x -= w.get(k, 0)
        if x < 0:
            return k
    return 'strings'


def _frame_bytes(ftype, ch, payload):
    return bytes([ftype]) + ch.to_bytes(2, 'big') + \
        len(payload).to_bytes(4, 'big') + payload + b'\xce'


def _ss(s):
    b = s.encode('utf-8')
    return bytes([len(b)]) + b


def soak_frame(spec, i):
    """The i-th input of a soak history: a pure function of the explicit
    spec and i (no randomness at execution time).  All frames are built by
    the harness byte by byte, as a foreign peer would send them; every
    cacheable part (channel, strings, keys, timestamps, flag words, sizes)
    is distinct for distinct i."""
    kind = _soak_kind(spec, i)
    ch = (i * 7 + 1) % 65536
    x = (spec['a'] * (i + 7) + spec['b']) % 2147483647
    if kind == 'flagchain':
        # content header with chained property-flag words (bit 0 of a word
        # = "another word follows"); only the first word selects properties
        k = 1 + x % max(1, spec.get('chain', 1))
        # delivery_mode + priority (the top bit is avoided: the decoder
        # reads flag words as signed shorts)
        first = 0x1000 | 0x0800 | 1
        words = [first]
        y = x
        for j in range(k):
            y = (y * 1103515245 + 12345 + i) % 2147483648
            wv = (y >> 8) & 0xffff
            if spec.get('chain_low'):
                wv &= 0x7fff
            wv = (wv | 1) if j < k - 1 else (wv & ~1)
            words.append(wv)
        payload = (60).to_bytes(2, 'big') + b'\x00\x00' + \
            (i & 0xffffffff).to_bytes(8, 'big') + \
            b''.join(w_.to_bytes(2, 'big') for w_ in words) + \
            bytes([1 + i % 2, i % 10])
        return _frame_bytes(2, ch, payload)
    if kind == 'strings':
        # Basic.Deliver: consumer-tag, delivery-tag, redelivered, exchange,
        # routing-key
        payload = (60).to_bytes(2, 'big') + (60).to_bytes(2, 'big') + \
            _ss('ctag-%d' % i) + (i + 1).to_bytes(8, 'big') + b'\x00' + \
            _ss('ex-%d' % (x % 100003)) + _ss('rk.%d.%d' % (i, x % 977))
        return _frame_bytes(1, ch, payload)
    if kind in ('keys', 'badutf8', 'badtag', 'deep'):
        # content header with a headers table of distinct keys
        items = b''
        for j in range(1 + x % 4):
            key = 'k%d_%d' % (i, j)
            if kind == 'deep' and j == 0:
                inner = _ss('n%d' % i) + b'I' + (x % 2147483647).to_bytes(
                    4, 'big')
                for _ in range(1 + x % 6):
                    inner = _ss('d%d' % (x % 9973)) + b'F' + \
                        len(inner).to_bytes(4, 'big') + inner
                items += _ss(key) + b'F' + len(inner).to_bytes(4, 'big') + \
                    inner
            elif j % 3 == 0:
                items += _ss(key) + b'S' + (len(key) + 2).to_bytes(
                    4, 'big') + b'v=' + key.encode()
            elif j % 3 == 1:
                items += _ss(key) + b'T' + (1600000000 + i * 13 + j
                                            ).to_bytes(8, 'big')
            else:
                items += _ss(key) + b'D' + bytes([x % 9]) + \
                    (i * 31 + j).to_bytes(4, 'big')
        if kind == 'badutf8':
            b_ = bytearray(items)
            b_[1 + x % 3] = (0xff, 0xc0, 0x80, 0xfe)[i % 4]
            items = bytes(b_)
        elif kind == 'badtag':
            items += _ss('z%d' % i) + bytes([(0x01, 0x7a, 0xff, 0x51)[i % 4]
                                             ]) + b'\x00\x00'
        payload = (60).to_bytes(2, 'big') + b'\x00\x00' + \
            (i & 0xffffffff).to_bytes(8, 'big') + (0x2000).to_bytes(
                2, 'big') + len(items).to_bytes(4, 'big') + items
        return _frame_bytes(2, ch, payload)
    if kind == 'partial':
        # what a socket reader hands over while a large frame is still
        # arriving: the header and the first part of the body (a distinct
        # buffer every time)
        size = 1000 + x % 60000
        have = 1 + (x // 7) % min(size, 8000)
        return bytes([3]) + ch.to_bytes(2, 'big') + \
            size.to_bytes(4, 'big') + bytes([i % 251, x % 256]) * (have // 2)
    if kind == 'dupkeys':
        # a headers table in which one field name occurs hundreds of times
        # (nothing a sane peer sends, nothing the grammar forbids)
        k = 40 + x % 160 if i % 10 else 400 + x % 800
        name = ('', 'k', 'x-dup', 'n%d' % (i % 7))[i % 4].encode()
        ent = bytes([len(name)]) + name + (b'V' if i % 3 else b'b\x07')
        items = ent * k
        payload = (60).to_bytes(2, 'big') + b'\x00\x00' + \
            (i & 0xffffffff).to_bytes(8, 'big') + (0x2000).to_bytes(
                2, 'big') + len(items).to_bytes(4, 'big') + items
        return _frame_bytes(2, ch, payload)
    if kind == 'stamps':
        # content header: message_id + timestamp
        payload = (60).to_bytes(2, 'big') + b'\x00\x00' + \
            (i & 0xffffffff).to_bytes(8, 'big') + \
            (0x0080 | 0x0040).to_bytes(2, 'big') + \
            _ss('mid-%d-%d' % (i, x % 1009)) + \
            (1500000000 + i * 17 + x % 11).to_bytes(8, 'big')
        return _frame_bytes(2, ch, payload)
    # bodies of distinct sizes
    return _frame_bytes(3, ch, bytes([i % 251]) * (1 + (i * 13) % 1777))


def execute(trace, props, keep_log=False):
    return RunA(trace, props, keep_log).execute()
