"""Tagged-JSON descriptors <-> exact Python values, and canonical forms.

Descriptors are what replay files hold: plain JSON that rebuilds the exact
Python value (type included).  Canonical forms are what oracles compare and
what the event log records: type-tagged, address-free, NaN-stable.
"""
import datetime
import decimal
import hashlib
import re
import time
import zoneinfo

from sim import lib

UTC = datetime.timezone.utc


class NoOffset(datetime.tzinfo):
    """A tzinfo whose utcoffset() is None: such a datetime is naive by
    Python's definition although tzinfo is set."""

    def utcoffset(self, dt):
        return None

    def dst(self, dt):
        return None

    def tzname(self, dt):
        return None

    def __repr__(self):
        return 'NoOffset()'


NO_OFFSET = NoOffset()


class IntSub(int):
    """An int subclass (what an ORM, numpy-like wrapper or enum hands over)."""
    __slots__ = ()

    def __repr__(self):
        return 'IntSub(%d)' % int(self)


class StrSub(str):
    __slots__ = ()


_ENUMS = {}


def int_enum(n):
    import enum
    e = _ENUMS.get(n)
    if e is None:
        e = _ENUMS[n] = enum.IntEnum('Code', {'M': n})
    return e.M


# ---------------------------------------------------------------- descriptors


def to_desc(v):
    """Python value -> JSON-able descriptor (exact, type preserving)."""
    if v is None or v is True or v is False:
        return v
    t = type(v)
    if t is int:
        return v
    if t is str:
        return v
    if t is IntSub:
        return {'isub': int(v)}
    if t is StrSub:
        return {'ssub': str(v)}
    if isinstance(v, int) and t.__name__ == 'Code':
        return {'ienum': int(v)}
    if t is float:
        return {'f': repr(v)}
    if t is bytes:
        return {'b': v.hex()}
    if t is bytearray:
        return {'x': v.hex()}
    if t is decimal.Decimal:
        return {'D': str(v)}
    if t is list:
        return [to_desc(i) for i in v]
    if t is dict:
        return {'d': [[k, to_desc(i)] for k, i in v.items()]}
    if t is datetime.datetime:
        tz = v.tzinfo
        if tz is None:
            tzd = None
        elif isinstance(tz, NoOffset):
            tzd = {'no_offset': True}
        elif isinstance(tz, zoneinfo.ZoneInfo):
            tzd = {'zone': tz.key}
        else:
            tzd = int(tz.utcoffset(v).total_seconds())
        return {'dt': [v.year, v.month, v.day, v.hour, v.minute, v.second,
                       v.microsecond], 'tz': tzd, 'fold': v.fold}
    if t is time.struct_time:
        d = {'st': list(v)}
        if getattr(v, 'tm_gmtoff', None) is not None or \
                getattr(v, 'tm_zone', None) is not None:
            d['zone'] = v.tm_zone
            d['gmtoff'] = v.tm_gmtoff
        return d
    raise TypeError('no descriptor for %r' % (t,))


def from_desc(d):
    if d is None or d is True or d is False:
        return d
    t = type(d)
    if t is int or t is str:
        return d
    if t is list:
        return [from_desc(i) for i in d]
    if t is dict:
        if 'f' in d:
            return float(d['f'])
        if 'deep' in d:
            # a chain of nested containers, kept compact in traces (a
            # descriptor nested that deep would not survive pickle / json)
            depth, leaf = d['deep']
            v = {'leaf': leaf}
            for i in range(depth):
                v = {'n': v} if i % 7 else {'a': [v]}
            return v
        if 'isub' in d:
            return IntSub(d['isub'])
        if 'ienum' in d:
            return int_enum(d['ienum'])
        if 'ssub' in d:
            return StrSub(d['ssub'])
        if 'b' in d:
            return bytes.fromhex(d['b'])
        if 'x' in d:
            return bytearray.fromhex(d['x'])
        if 'D' in d:
            return decimal.Decimal(d['D'])
        if 'd' in d:
            return {k: from_desc(i) for k, i in d['d']}
        if 'dt' in d:
            tzd = d.get('tz')
            if tzd is None:
                tz = None
            elif isinstance(tzd, dict) and tzd.get('no_offset'):
                tz = NO_OFFSET
            elif isinstance(tzd, dict):
                tz = zoneinfo.ZoneInfo(tzd['zone'])
            else:
                tz = datetime.timezone(datetime.timedelta(seconds=tzd))
            return datetime.datetime(*d['dt'], tzinfo=tz,
                                     fold=d.get('fold', 0))
        if 'st' in d:
            if 'gmtoff' in d:   # the 11-field form localtime()/strptime give
                return time.struct_time(tuple(d['st']) + (d.get('zone'),
                                                          d['gmtoff']))
            return time.struct_time(tuple(d['st']))
        if 'rep' in d:  # repeated string / bytes, keeps replay files small
            unit = from_desc(d['rep'][0])
            return unit * d['rep'][1]
    raise TypeError('bad descriptor %r' % (d,))


# ------------------------------------------------------------ canonical forms

_ADDR = re.compile(r'( object)? at 0x[0-9a-fA-F]+|0x[0-9a-fA-F]{7,}')
_BIG = 96  # byte strings longer than this are logged as (len, sha1)


def _hexs(b):
    if len(b) > _BIG:
        return [len(b), hashlib.sha1(bytes(b)).hexdigest()]
    return bytes(b).hex()


def canon_value(v):
    """Type-tagged canonical form of a field value / attribute value."""
    if v is None:
        return ['N']
    t = type(v)
    if t is bool:
        return ['t', v]
    if t is int:
        return ['i', v]
    if t is float:
        return ['f', repr(v)]
    if t is IntSub:
        return ['isub', int(v)]
    if t is StrSub:
        return ['ssub', str(v)]
    if isinstance(v, int) and t.__name__ == 'Code':
        return ['ienum', int(v)]
    if t is str:
        if len(v) > _BIG:
            return ['s', len(v),
                    hashlib.sha1(v.encode('utf-8', 'surrogatepass'))
                    .hexdigest()]
        return ['s', v]
    if t is bytes:
        return ['b', _hexs(v)]
    if t is bytearray:
        return ['x', _hexs(v)]
    if t is memoryview:
        return ['mv', _hexs(bytes(v))]
    if t is decimal.Decimal:
        return ['D', str(v)]
    if t is list:
        return ['A', [canon_value(i) for i in v]]
    if t is dict:
        return ['F', [[canon_value(k), canon_value(i)] for k, i in v.items()]]
    if t is tuple:
        return ['tuple', [canon_value(i) for i in v]]
    if t is datetime.datetime:
        if v.tzinfo is None or v.utcoffset() is None:
            return ['T', 'naive', [v.year, v.month, v.day, v.hour, v.minute,
                                   v.second, v.microsecond]]
        delta = v - datetime.datetime(1970, 1, 1, tzinfo=UTC)
        off = v.utcoffset()
        return ['T', 'aware', delta.days * 86400 + delta.seconds,
                delta.microseconds, int(off.total_seconds())]
    if t is time.struct_time:
        return ['st', list(v)]
    if isinstance(v, lib.base.BasicProperties):
        return canon_props(v)
    if isinstance(v, (lib.base.Frame, lib.header.ContentHeader,
                      lib.body.ContentBody, lib.heartbeat.Heartbeat,
                      lib.header.ProtocolHeader)):
        return canon_frame(v)
    return ['?', t.__module__ + '.' + t.__qualname__, _ADDR.sub('', repr(v))]


def _tname(o):
    t = type(o)
    return t.__module__ + '.' + t.__qualname__


def _extra_attrs(o, known=()):
    """Instance attributes beyond the declared ones (a cache or marker
    written onto the object shows up here)."""
    d = getattr(o, '__dict__', None)
    if not d:
        return []
    return [[k, canon_value(v)] for k, v in sorted(d.items())
            if k not in known]


def canon_props(p):
    out = ['Props', _tname(p),
           [[s, canon_value(getattr(p, s, '<unset>'))]
            for s in type(p).__slots__]]
    extra = _extra_attrs(p, type(p).__slots__)
    if extra:
        out.append(['extra', extra])
    return out


def canon_frame(f):
    if isinstance(f, lib.base.Frame):
        out = ['M', _tname(f),
               [[s, canon_value(getattr(f, s, '<unset>'))]
                for s in type(f).__slots__]]
        extra = _extra_attrs(f, type(f).__slots__)
        if extra:
            out.append(['extra', extra])
        return out
    if isinstance(f, lib.header.ContentHeader):
        out = ['H', _tname(f), canon_value(f.class_id),
               canon_value(f.weight), canon_value(f.body_size),
               canon_value(f.properties)]
        extra = _extra_attrs(f, ('class_id', 'weight', 'body_size',
                                 'properties'))
        if extra:
            out.append(['extra', extra])
        return out
    if isinstance(f, lib.body.ContentBody):
        return ['B', _tname(f), canon_value(f.value)]
    if isinstance(f, lib.heartbeat.Heartbeat):
        return ['HB', _tname(f)]
    if isinstance(f, lib.header.ProtocolHeader):
        return ['P', _tname(f), canon_value(f.major_version),
                canon_value(f.minor_version), canon_value(f.revision)]
    return ['?', _tname(f), _ADDR.sub('', repr(f))]


def canon_exc(e):
    msg = _ADDR.sub('', str(e))
    if len(msg) > 200:
        msg = msg[:200] + '...'
    t = type(e)
    return ['EXC', t.__module__ + '.' + t.__qualname__, msg]


def frame_kind(f):
    """Kind of a returned frame object, by class, for the envelope oracle."""
    if isinstance(f, lib.header.ProtocolHeader):
        return 'protocol'
    if isinstance(f, lib.base.Frame):
        return 'method'
    if isinstance(f, lib.header.ContentHeader):
        return 'header'
    if isinstance(f, lib.body.ContentBody):
        return 'body'
    if isinstance(f, lib.heartbeat.Heartbeat):
        return 'heartbeat'
    return 'other:' + _tname(f)
