#!/venv/bin/python
"""Confirm a sub-agent's seeded change and run the property's check on it.

usage: tools/seed_eval.py <PROP> <src-dir-with-patch.diff-demo.py-notes.md> <slug> [tier]

Uses a scratch git worktree of /repo under /tmp (created and removed here):
 1. unmodified tree: demo must exit 0
 2. patch applied: full pinned suite must still pass (846), demo must exit != 0
 3. PAMQP_SRC=<worktree> ./run <PROP> quick must exit 1 with a VIOLATION line
Writes /verif/seeded/<PROP>-<slug>/{patch.diff,demo.py,notes.md,meta.json}.
"""
import json
import os
import shutil
import subprocess
import sys
import tempfile
import time

prop, src, slug = sys.argv[1:4]
tier = sys.argv[4] if len(sys.argv) > 4 else 'quick'
PY = '/venv/bin/python'
wt = tempfile.mkdtemp(prefix='seed-wt-')
os.rmdir(wt)
subprocess.run(['git', '-C', '/repo', 'worktree', 'add', '-q', '--detach', wt,
                'HEAD'], check=True)
meta = {'property': prop, 'slug': slug, 'source': 'independent sub-agent '
        '(given only the property text and a scratch worktree)'}
try:
    env = dict(os.environ, PYTHONPATH=wt, PYTHONDONTWRITEBYTECODE='1')
    demo = os.path.join(src, 'demo.py')
    p = subprocess.run([PY, demo], env=env, cwd=wt, capture_output=True,
                       text=True, timeout=600)
    meta['demo_unmodified_rc'] = p.returncode
    a = subprocess.run(['git', '-C', wt, 'apply', os.path.join(src,
                       'patch.diff')], capture_output=True, text=True)
    if a.returncode != 0:
        print('PATCH DOES NOT APPLY', a.stderr)
        sys.exit(3)
    t = subprocess.run([PY, '-m', 'pytest', '-q', '-p', 'no:cacheprovider'],
                       env=env, cwd=wt, capture_output=True, text=True)
    tail = t.stdout.strip().splitlines()[-1] if t.stdout.strip() else ''
    meta['suite_with_change'] = tail
    p = subprocess.run([PY, demo], env=env, cwd=wt, capture_output=True,
                       text=True, timeout=600)
    meta['demo_with_change_rc'] = p.returncode
    meta['demo_with_change_output'] = (p.stdout + p.stderr)[-400:]
    confirmed = meta['demo_unmodified_rc'] == 0 and \
        meta['demo_with_change_rc'] != 0 and '846 passed' in tail
    meta['confirmed'] = confirmed
    out = tempfile.mkdtemp(prefix='seed-out-')
    t0 = time.time()
    envc = dict(os.environ, PAMQP_SRC=wt, VERIF_EVIDENCE_DIR=out,
                VERIF_REPLAY_DIR=out, PYTHONPATH='')
    c = subprocess.run(['/verif/run', prop, tier], env=envc, cwd='/verif',
                       capture_output=True, text=True, timeout=7200)
    lines = (c.stdout + c.stderr).splitlines()
    vio = [i for i, l in enumerate(lines) if l.startswith('VIOLATION')]
    meta['check'] = {'cmd': 'PAMQP_SRC=<tree with patch> ./run %s %s' % (
        prop, tier), 'rc': c.returncode, 'wall_s': round(time.time() - t0, 1),
        'violation_lines': [lines[i:i + 3] for i in vio][:4],
        'harness': [l for l in lines if l.startswith('HARNESS')][:2]}
    meta['caught'] = c.returncode == 1 and bool(vio)
    shutil.rmtree(out, ignore_errors=True)
    print(json.dumps(meta, indent=1))
    if confirmed:
        dst = os.path.join('/verif/seeded', '%s-%s' % (prop, slug))
        os.makedirs(dst, exist_ok=True)
        for fn in ('patch.diff', 'demo.py', 'notes.md'):
            if os.path.exists(os.path.join(src, fn)):
                shutil.copy(os.path.join(src, fn), os.path.join(dst, fn))
        old = {}
        mp = os.path.join(dst, 'meta.json')
        if os.path.exists(mp):
            old = json.load(open(mp))
        old.update(meta)
        json.dump(old, open(mp, 'w'), indent=1)
finally:
    subprocess.run(['git', '-C', '/repo', 'worktree', 'remove', '--force',
                    wt])
