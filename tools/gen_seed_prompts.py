# Template used for seeded rounds 9-10: writes one sub-agent prompt per claimed property
# (property JSON + scratch worktree path + avoid-list of earlier mechanisms). Paths under /tmp are per round.
import json
slugs={}
for l in open('/tmp/r9-out/slugs.txt'):
    p,s=l.split(':',1); slugs[p]=s.split()
for p in slugs:
    prop=open('/tmp/r9-out/%s/property.txt'%p).read()
    avoid='\n'.join('  - '+s.replace('-',' ') for s in slugs[p])
    t=f"""You are helping evaluate a verification framework by producing a realistic, subtle regression in an open-source library.

The library is gmr/pamqp (pure-Python AMQP 0-9-1 encoder/decoder). You have your own scratch git worktree of it at /tmp/r9/{p} (work ONLY there; never touch /repo or /verif, do not read /verif). Python: /venv/bin/python (3.12). Run the library from the worktree with PYTHONPATH=/tmp/r9/{p}. The existing test suite is run from the worktree root with: cd /tmp/r9/{p} && PYTHONPATH=/tmp/r9/{p} /venv/bin/python -m pytest -q -p no:cacheprovider   (846 tests, all pass on the unmodified tree). No network.

Here is a semantic property of the library that should hold (JSON):

{prop}

YOUR TASK: write ONE change to the library source (pamqp/*.py in your worktree) that BREAKS this property, while (a) the package still imports, (b) ALL 846 existing tests still pass unedited, and (c) the change looks like something a real contributor might plausibly submit (an optimisation, a cache, a refactor, a new guard, a "robustness" tweak, a feature), not sabotage. The break must need something SPECIFIC to manifest -- a particular thread interleaving, a fault (truncation/corruption/close) at a particular point, a multi-step sequence of operations, an unusual-but-legal input, a particular ambient state (time zone, global switch, python -O, warnings filters ...), or two cooperating sites that each look fine alone -- NOT something ordinary use would expose at once.

Earlier rounds already produced changes built on these mechanisms for this property; pick something DIFFERENT in mechanism and in the code location where possible:
{avoid}

Deliverables, written to /tmp/r9-out/{p}/ :
  1. patch.diff  -- `git -C /tmp/r9/{p} diff` of your change (must apply with `git apply` to a clean checkout of the same commit; source files only, no test edits, no new files outside pamqp/).
  2. demo.py     -- a small standalone program that uses only the public pamqp API (plus stdlib), exits 0 on the UNMODIFIED tree and exits non-zero (printing what went wrong) WITH your change, deterministic (if it needs a thread interleaving, force it deterministically, e.g. with sys.settrace/threading events or by direct sequencing). It is run as: cd <tree> && PYTHONPATH=<tree> /venv/bin/python demo.py
  3. notes.md    -- 5-10 lines: what the change is, why it looks plausible, exactly what is needed for it to manifest, and which part of the property statement it violates.
  4. slug.txt    -- one line, a short kebab-case name for the mechanism (e.g. header-memo-stale-after-reset).

Before finishing, VERIFY yourself: `git stash` (or apply -R) -> demo exits 0; with the change -> demo exits non-zero and the full suite prints "846 passed". Leave the worktree with the change applied. Be quick: aim to finish within about 10 minutes; a simple, well-verified subtle change beats an elaborate one. Your final answer: the slug and one sentence on what is needed to manifest it."""
    open('/tmp/r9-out/prompt-%s.txt'%p,'w').write(t)
