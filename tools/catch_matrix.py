#!/venv/bin/python
"""Print the catch matrix (markdown) from evidence/sensitivity.json and
seeded/*/meta.json."""
import glob
import json
import os

V = '/verif'
print('| change | property | result | violation class reported |')
print('|---|---|---|---|')
sens = {}
p = os.path.join(V, 'evidence', 'sensitivity.json')
if os.path.exists(p):
    for r in json.load(open(p))['results']:
        sens[r['mutant']] = r
for name in sorted(sens):
    r = sens[name]
    if r.get('kind') == 'negative':
        print('| mutants/%s | (all nine) | %s | negative control |' % (
            name, 'silent' if r['ok'] else 'ALARM'))
    else:
        d = r.get('detail', '')
        cls = d.split('|')[0].strip()
        print('| %s/%s | %s | %s | %s |' % (
            'seeded' if name.startswith('seeded/') else 'mutants',
            name.replace('seeded/', ''), r.get('property', ''),
            'caught' if r['ok'] else 'MISSED', cls[:90]))
