#!/venv/bin/python
"""Print the catch matrix (markdown) from seeded/*/meta.json, the mutants
listed in evidence/sensitivity.json (if present) and the sensitivity logs
given on the command line (lines starting with SENSITIVITY)."""
import glob
import json
import os
import re
import sys

V = '/verif'
rows = []
for f in sorted(glob.glob(os.path.join(V, 'seeded', '*', 'meta.json'))):
    m = json.load(open(f))
    name = os.path.basename(os.path.dirname(f))
    cls = ''
    vl = (m.get('check') or {}).get('violation_lines') or []
    if vl and len(vl[0]) > 1:
        cls = vl[0][1].strip().replace('class=', '')
    rows.append((m['property'], m.get('round', 1), name,
                 'caught' if m.get('caught') else 'MISSED',
                 m.get('caught_by') or m.get('miss_reason') or cls))
by = {}
for p, rnd, name, st, note in rows:
    k = (p, st)
    by[k] = by.get(k, 0) + 1
print('| property | seeded changes | caught | missed |')
print('|---|---|---|---|')
for p in sorted({r[0] for r in rows}):
    c, mi = by.get((p, 'caught'), 0), by.get((p, 'MISSED'), 0)
    print('| %s | %d | %d | %d |' % (p, c + mi, c, mi))
print()
print('| seeded change | round | result | how / violation class |')
print('|---|---|---|---|')
for p, rnd, name, st, note in rows:
    print('| %s | %s | %s | %s |' % (name, rnd, st, note[:150].replace('|', '/')))
logs = sys.argv[1:]
seen = {}
for lg in logs:
    for line in open(lg, errors='replace'):
        m = re.match(r'SENSITIVITY (\S+)\s+(.*)', line)
        if m:
            seen[m.group(1)] = m.group(2).strip()
if seen:
    print()
    print('| own mutant / negative control | result |')
    print('|---|---|')
    for k in sorted(seen):
        print('| %s | %s |' % (k, seen[k][:160].replace('|', '/')))
