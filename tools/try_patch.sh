#!/bin/bash
# usage: tools/try_patch.sh <patch.diff> <CHECK> [tier]   (env VERIF_POPS etc. pass through)
# Applies the patch to a scratch copy of /repo (removed afterwards) and runs the check on it.
set -e
tmp=$(mktemp -d /tmp/try-XXXXXX)
trap 'rm -rf "$tmp"' EXIT
mkdir "$tmp/tree" "$tmp/out"
rsync -a --exclude .git --exclude __pycache__ /repo/ "$tmp/tree/"
P=$(realpath "$1"); (cd "$tmp/tree" && patch -p1 -s < "$P")
PAMQP_SRC="$tmp/tree" VERIF_EVIDENCE_DIR="$tmp/out" VERIF_REPLAY_DIR="$tmp/out" PYTHONPATH= /verif/run "$2" "${3:-quick}" 2>&1 | cut -c1-700
